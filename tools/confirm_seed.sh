#!/bin/sh
# tools/confirm_seed.sh <seed-id> <Cxx> <patch.diff> <demo.py> <note.txt>
# Confirms, in a scratch worktree of /repo HEAD (removed afterwards): the patch applies, the pinned test suite
# still passes with it (same passed count as without), the demo fails with it and passes without it.
# On success the seed is stored under /verif/seeded/<seed-id>/ (patch.diff, demo.py, meta.json).
set -u
sid=$1; pid=$2; patch=$3; demo=$4; note=$5
wt=/tmp/seedwt/confirm-$sid-$$
mkdir -p /tmp/seedwt
git -C /repo worktree add -q --detach "$wt" HEAD || exit 9
cd "$wt"
PYTHONPATH=$wt /venv/bin/python "$demo" > /tmp/seedwt/$sid.clean.out 2>&1; rc_clean=$?
base=$(/venv/bin/python -m pytest -q -p no:cacheprovider tests 2>&1 | tail -1)
if ! git apply "$patch"; then echo "$sid: patch does not apply"; cd /; git -C /repo worktree remove --force "$wt"; exit 9; fi
PYTHONPATH=$wt /venv/bin/python "$demo" > /tmp/seedwt/$sid.mut.out 2>&1; rc_mut=$?
mut=$(/venv/bin/python -m pytest -q -p no:cacheprovider tests 2>&1 | tail -1)
cd /; git -C /repo worktree remove --force "$wt"
echo "$sid: demo clean rc=$rc_clean, mutated rc=$rc_mut; tests clean: $base ; mutated: $mut"
bp=$(echo "$base" | sed 's/.* \([0-9]*\) passed.*/\1/'); mp=$(echo "$mut" | sed 's/.* \([0-9]*\) passed.*/\1/')
if [ "$rc_clean" = 0 ] && [ "$rc_mut" != 0 ] && [ "$bp" = "$mp" ]; then
  d=/verif/seeded/$sid; mkdir -p $d; cp "$patch" $d/patch.diff; cp "$demo" $d/demo.py
  /opt/veriftools/pyvenv/bin/python - "$sid" "$pid" "$note" "$base" "$mut" "$(git -C /repo rev-parse --short HEAD)" <<'PY'
import sys, json
sid, pid, note, base, mut, head = sys.argv[1:7]
meta = {'seed': sid, 'breaks_property': pid, 'needs_to_manifest': open(note).read().strip(),
        'confirmed_against_repo_commit': head,
        'what_was_run': ['git apply patch.diff in a scratch worktree of /repo HEAD', 'pytest tests: clean "%s" / with the change "%s"' % (base, mut),
                         'demo.py: exit 0 on the clean tree, non-zero with the change'],
        'origin': 'written by an independent sub-agent that saw only the property text and a scratch worktree'}
json.dump(meta, open('/verif/seeded/%s/meta.json' % sid, 'w'), indent=1)
PY
  echo "$sid: kept"
else
  echo "$sid: NOT kept"
fi
