import json, sys, glob, jsonschema
jsonschema.validate(json.load(open('/verif/MANIFEST.json')), json.load(open('/root/.vp/MANIFEST.schema.json')))
sch = json.load(open('/root/.vp/EVIDENCE.schema.json'))
for f in sorted(glob.glob('/verif/evidence/*.json')):
    jsonschema.validate(json.load(open(f)), sch); print('ok', f)
print('manifest ok')
