#!/bin/sh
# tools/run_all.sh [tier]  : run every registered check in turn, print one line per check (used to regenerate the evidence)
tier=${1:-quick}
cd /verif
for id in $(/opt/veriftools/pyvenv/bin/python -c "import json; print(' '.join(c['property_id'] for c in json.load(open('MANIFEST.json'))['checks']))"); do
  s=$(date +%s)
  ./check $id --tier $tier > /tmp/runall-$id.log 2>&1
  rc=$?
  echo "$id rc=$rc $(( $(date +%s) - s ))s $(tail -1 /tmp/runall-$id.log | cut -c1-120)"
done
