import json
props=[json.loads(l) for l in open('/verif/properties.jsonl')]
import importlib.util, os, sys
sys.path.insert(0,'/verif')
from props import registry
checks=[]; na=[]
for p in props:
    pid=p['id']
    r=registry.CHECKS.get(pid)
    if r is None:
        na.append({'property_id':pid,'reason':registry.NA.get(pid,'check not built yet in this round (planned in DESIGN.md section 3)')})
        continue
    checks.append({'property_id':pid,'quick_cmd':'./check %s --tier quick'%pid,'thorough_cmd':'./check %s --tier thorough'%pid,
      'evidence_file':'/verif/evidence/%s.json'%pid,'replay_cmd_template':'/venv/bin/python {path}','engine':'symx',
      'level_claimed':{'category':'model_checking','text':r['text'],'design_ref':'DESIGN.md section 3 (%s)'%pid},
      'level_note':r['note'],'technique':r['technique']})
m={'version':1,'setup_cmd':'/opt/veriftools/pyvenv/bin/python -m symx.selftest',
 'hooks':{'guard':'ARCHITEST_PYMEEUS_VERIF','enable':'none needed: the real source under /repo/pymeeus is read, compiled unchanged and executed with solver-aware int/float/isinstance/math at load time (symx/loader.py); no hook exists in /repo','baseline_off_cmd':'cd /repo && /venv/bin/python -m pytest -ra -q -p no:cacheprovider --timeout=900 --continue-on-collection-errors','source_commits':[],'add_only':True},
 'engines':[{'name':'symx','path':'/verif/symx','serves_properties':[c['property_id'] for c in checks],'kind_free_text':'symbolic execution of the real pymeeus source (proxy numbers over z3 terms, path exploration by re-execution), obligations decided by z3 (LIA / NRA / QF_FPBV), counterexamples replayed on the unmodified library'}],
 'checks':checks,'not_applicable':na,
 'notes':'exit codes: 0 held within stated bounds, 1 replay-confirmed VIOLATION, 2 inconclusive/harness error. Evidence is rewritten on every run. See DESIGN.md.'}
json.dump(m,open('/verif/MANIFEST.json','w'),indent=1)
print(len(checks),'checks',len(na),'n/a')
