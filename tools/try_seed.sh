#!/bin/sh
# tools/try_seed.sh <Cxx> <patch.diff> [tier]
# Runs the check against a scratch worktree of /repo with the seeded change applied (SYMX_REPO points the
# loader and the replay scripts there; evidence goes to a scratch dir).  /repo itself is not touched, so
# several seeds can be tried while other work goes on.  The worktree is removed afterwards.
set -u
pid=$1; patch=$2; tier=${3:-quick}
tag=$pid-$(basename "$patch" .diff)-$$
wt=/tmp/seedwt/$tag
mkdir -p /tmp/seedwt /tmp/seedev/$tag
git -C /repo worktree add -q --detach "$wt" HEAD || exit 9
if ! git -C "$wt" apply "$patch"; then echo "seed $pid $patch: patch does not apply"; git -C /repo worktree remove --force "$wt"; exit 9; fi
cd /verif && SYMX_REPO=$wt SYMX_EVIDENCE_DIR=/tmp/seedev/$tag ./check "$pid" --tier "$tier" > /tmp/seedev/$tag/log 2>&1
rc=$?
git -C /repo worktree remove --force "$wt"
echo "seed $pid $(basename $patch): check exit $rc ; violations: $(grep -c '^VIOLATION' /tmp/seedev/$tag/log) ; log /tmp/seedev/$tag/log"
grep "^VIOLATION\|^INCONCLUSIVE\|^HELD" /tmp/seedev/$tag/log | head -4
