"""symx.loader -- instrumented import of the real pymeeus source.

Every module is read from <root>/pymeeus/<M>.py *as it is on disk now*, compiled unchanged
and executed in a namespace in which int/float/isinstance are solver-aware, and after the
module body ran the names it took from `math`, `datetime` and `calendar` are rebound.
Nothing is written to the repository.
"""
import sys
import os
import math
import types
import hashlib
import importlib.abc
import importlib.machinery

from . import core
from .models import dt

ROOT = os.environ.get('SYMX_REPO', '/repo')
PATCHES = []            # canary mutants: (module, old, new) applied to the in-memory text only
HASHES = {}


class _Finder(importlib.abc.MetaPathFinder, importlib.abc.Loader):
    def find_spec(self, name, path, target=None):
        if name == 'pymeeus':
            return importlib.machinery.ModuleSpec(name, self, is_package=True)
        if name.startswith('pymeeus.'):
            fn = os.path.join(ROOT, 'pymeeus', name.split('.', 1)[1] + '.py')
            if os.path.exists(fn):
                return importlib.machinery.ModuleSpec(name, self, origin=fn)
        return None

    def create_module(self, spec):
        return None

    def exec_module(self, mod):
        name = mod.__name__
        if name == 'pymeeus':
            mod.__path__ = []
            return
        short = name.split('.', 1)[1]
        fn = os.path.join(ROOT, 'pymeeus', short + '.py')
        src = open(fn, encoding='utf-8').read()
        HASHES[short] = hashlib.sha256(src.encode()).hexdigest()[:16]
        for (m, old, new) in PATCHES:
            if m == short:
                if src.count(old) != 1:
                    raise core.EngineError('canary patch does not apply exactly once: %s %r (%d)' % (m, old, src.count(old)))
                src = src.replace(old, new)
        mod.__file__ = fn
        d = mod.__dict__
        d.update(core.BUILTINS)
        exec(compile(src, fn, 'exec'), d)
        for k, v in core.MATH.items():
            if k in d and d[k] is getattr(math, k, None):
                d[k] = v
        if isinstance(d.get('datetime'), types.ModuleType):
            d['datetime'] = dt.module
        if isinstance(d.get('calendar'), types.ModuleType):
            d['calendar'] = dt.calendar


_finder = None


def install(patches=(), root=None):
    """(re)install the instrumented importer; drops any previously loaded pymeeus modules"""
    global _finder, ROOT
    if root is not None:
        ROOT = root
    for k in [k for k in sys.modules if k == 'pymeeus' or k.startswith('pymeeus.')]:
        del sys.modules[k]
    PATCHES[:] = list(patches)
    HASHES.clear()
    if _finder is None:
        _finder = _Finder()
        sys.meta_path.insert(0, _finder)


def mod(name):
    import importlib
    return importlib.import_module('pymeeus.' + name)
