"""Model of datetime.date / datetime.datetime over symbolic integers.

Algorithms are CPython's own (Lib/_pydatetime.py: _ymd2ord, _ord2ymd, _days_in_month),
so that the proleptic Gregorian semantics -- including where ValueError is raised --
are the ones the library gets from the C type.
"""
from .. import core

MINYEAR = 1
MAXYEAR = 9999
_DAYS_IN_MONTH = [-1, 31, 28, 31, 30, 31, 30, 31, 31, 30, 31, 30, 31]
_DAYS_BEFORE_MONTH = [-1]
_dbm = 0
for _dim in _DAYS_IN_MONTH[1:]:
    _DAYS_BEFORE_MONTH.append(_dbm)
    _dbm += _dim
del _dbm, _dim


def _is_leap(year):
    return year % 4 == 0 and (year % 100 != 0 or year % 400 == 0)


def _days_before_year(year):
    y = year - 1
    return y * 365 + y // 4 - y // 100 + y // 400


def _days_in_month(year, month):
    if month == 2 and _is_leap(year):
        return 29
    return _DAYS_IN_MONTH[month]


def _days_before_month(year, month):
    return _DAYS_BEFORE_MONTH[month] + (1 if (month > 2 and _is_leap(year)) else 0)


def _ymd2ord(year, month, day):
    return _days_before_year(year) + _days_before_month(year, month) + day


_DI400Y = _days_before_year(401)
_DI100Y = _days_before_year(101)
_DI4Y = _days_before_year(5)


def _ord2ymd(n):
    n = n - 1
    n400, n = divmod(n, _DI400Y)
    year = n400 * 400 + 1
    n100, n = divmod(n, _DI100Y)
    n4, n = divmod(n, _DI4Y)
    n1, n = divmod(n, 365)
    year = year + n100 * 100 + n4 * 4 + n1
    if n1 == 4 or n100 == 4:
        return year - 1, 12, 31
    leapyear = n1 == 3 and (n4 != 24 or n100 == 3)
    month = (n + 50) // 32
    month = month.__index__() if isinstance(month, core.Num) else month
    preceding = _DAYS_BEFORE_MONTH[month] + (1 if (month > 2 and leapyear) else 0)
    if preceding > n:
        month -= 1
        preceding -= _DAYS_IN_MONTH[month] + (1 if (month == 2 and leapyear) else 0)
    n = n - preceding
    return year, month, n + 1


def _ord2ymd_decl(n):
    """fromordinal for a symbolic ordinal, stated declaratively: the (year, month, day) with
    _ymd2ord(year, month, day) == n.  Same function as _ord2ymd (checked against the real datetime at
    every run, symx.models.dtcheck), but linear for the solver: no nested divmod to invert."""
    import z3
    ctx = core.CUR
    yv = z3.Int(ctx.fresh_name('ordyear'))
    year = core.Num('q', yv, 1, ty=int, iv=(core.Fr(1), core.Fr(9999)))
    ctx.assume(z3.And(yv >= 1, yv <= 9999))
    before = _days_before_year(year)
    after = _days_before_year(year + 1)
    ctx.assume(z3.And(before.n < n.n, n.n <= after.n))
    # hint facts (theorems: the day count before a year is strictly increasing, by >= 365 per year --
    # the per-step fact is discharged by the solver in dtcheck.lemmas()); instantiated for the years whose
    # ordinals were taken on this path, they let the solver locate `year` without inverting nested floors
    for t in ctx.memo.get('dt_years', []):
        gt_1 = _days_before_year(t)          # g(t-1)
        gt = _days_before_year(t + 1)        # g(t)
        ctx.assume(z3.And(z3.Implies(yv < t.n, after.n <= gt_1.n), z3.Implies(yv > t.n, before.n >= gt.n)))
    doy = n - before
    leap = 1 if _is_leap(year) else 0
    month = 12
    for mm in range(1, 12):
        lim = _DAYS_BEFORE_MONTH[mm + 1] + (leap if mm >= 2 else 0)
        if doy <= lim:
            month = mm
            break
    day = doy - (_DAYS_BEFORE_MONTH[month] + (leap if month > 2 else 0))
    return year, month, day


def _check_int(v, what):
    if isinstance(v, core.Num):
        if v.ty is not int:
            raise TypeError("'float' object cannot be interpreted as an integer")
        return v
    if isinstance(v, bool) or not isinstance(v, int):
        if isinstance(v, float):
            raise TypeError("'float' object cannot be interpreted as an integer")
        if hasattr(type(v), '__index__'):
            return v.__index__()
        raise TypeError("'%s' object cannot be interpreted as an integer" % type(v).__name__)
    return v


class _TT(object):
    """time.struct_time stand-in: tm_yday and the first six fields by index / slice"""
    def __init__(self, yday, fields=None):
        self.tm_yday = yday
        self._fields = fields

    def __getitem__(self, i):
        if self._fields is None:
            raise core.EngineError('timetuple() fields of a plain date model')
        return self._fields[i]


class date(object):
    def __init__(self, year, month, day):
        year = _check_int(year, 'year')
        month = _check_int(month, 'month')
        day = _check_int(day, 'day')
        if not (year >= MINYEAR and year <= MAXYEAR):
            raise ValueError('year %s is out of range' % (year,))
        if not (month >= 1 and month <= 12):
            raise ValueError('month must be in 1..12')
        if isinstance(month, core.Num):
            month = month.__index__()
        dim = _days_in_month(year, month)
        if not (day >= 1 and day <= dim):
            raise ValueError('day is out of range for month')
        self.year = year
        self.month = month
        self.day = day

    def toordinal(self):
        if isinstance(self.year, core.Num) and core.CUR is not None:
            core.CUR.memo.setdefault('dt_years', []).append(self.year)
        return _ymd2ord(self.year, self.month, self.day)

    @classmethod
    def fromordinal(cls, n):
        n = _check_int(n, 'ordinal')
        if not (n >= 1 and n <= 3652059):
            raise ValueError('ordinal must be >= 1')
        if isinstance(n, core.Num) and n.cval() is None:
            y, m, d = _ord2ymd_decl(n)
        else:
            y, m, d = _ord2ymd(n)
        r = date.__new__(date)
        r.year, r.month, r.day = y, m, d
        return r

    def timetuple(self):
        hms = (getattr(self, 'hour', 0), getattr(self, 'minute', 0), getattr(self, 'second', 0))
        return _TT(_days_before_month(self.year, self.month) + self.day, (self.year, self.month, self.day) + hms)

    def weekday(self):
        return (self.toordinal() + 6) % 7


class datetime(date):
    def __init__(self, year, month, day, hour=0, minute=0, second=0, microsecond=0):
        date.__init__(self, year, month, day)
        hour = _check_int(hour, 'hour')
        minute = _check_int(minute, 'minute')
        second = _check_int(second, 'second')
        microsecond = _check_int(microsecond, 'microsecond')
        if not (hour >= 0 and hour <= 23):
            raise ValueError('hour must be in 0..23')
        if not (minute >= 0 and minute <= 59):
            raise ValueError('minute must be in 0..59')
        if not (second >= 0 and second <= 59):
            raise ValueError('second must be in 0..59')
        if not (microsecond >= 0 and microsecond <= 999999):
            raise ValueError('microsecond must be in 0..999999')
        self.hour, self.minute, self.second, self.microsecond = hour, minute, second, microsecond

    _now = None      # set by a harness that stubs the wall clock

    @classmethod
    def now(cls):
        if cls._now is None:
            raise core.EngineError('wall clock read without a stub')
        return cls._now('local')

    @classmethod
    def utcnow(cls):
        if cls._now is None:
            raise core.EngineError('wall clock read without a stub')
        return cls._now('utc')


class _Module(object):
    """stands in for the `datetime` module object inside the instrumented pymeeus modules"""
    date = date
    datetime = datetime
    MINYEAR = MINYEAR
    MAXYEAR = MAXYEAR


class _Calendar(object):
    @staticmethod
    def isleap(year):
        return year % 4 == 0 and (year % 100 != 0 or year % 400 == 0)


module = _Module()
calendar = _Calendar()
