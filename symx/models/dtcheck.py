"""validation of the datetime model against the real datetime module (run by checks that use the model)"""
import datetime as real
import z3
from .. import core
from . import dt


def validate():
    """returns (n_checked, [disagreements]).  Concrete algorithmic model on boundary dates, and the declarative
    fromordinal on symbolic ordinals pinned to constants."""
    bad = []
    n = 0
    dates = []
    for y in list(range(1, 9999, 97)) + [1, 4, 100, 400, 1582, 1583, 1600, 1900, 2000, 2023, 2024, 9999]:
        for (m, d) in [(1, 1), (2, 28), (3, 1), (12, 31), (7, 4)]:
            dates.append((y, m, d))
        if real.date(y, 3, 1).toordinal() - real.date(y, 2, 28).toordinal() == 2:
            dates.append((y, 2, 29))
    for (y, m, d) in dates:
        r = real.date(y, m, d)
        md = dt.date(y, m, d)
        n += 1
        if md.toordinal() != r.toordinal() or md.timetuple().tm_yday != r.timetuple().tm_yday or md.weekday() != r.weekday():
            bad.append(('date', y, m, d))
        back = dt.date.fromordinal(r.toordinal())
        if (back.year, back.month, back.day) != (y, m, d):
            bad.append(('fromordinal', y, m, d))
        # declarative version, ordinal as a symbolic constant under a pinned variable
        o = core.Num.int_var('o')

        def fn():
            b = dt.date.fromordinal(o)
            return b.year, b.month, b.day
        ctx, paths = core.explore(fn, [o.n == r.toordinal()])
        got = None
        for p in paths:
            if p.kind == 'ok':
                s = z3.Solver()
                s.add(*ctx.pre)
                s.add(*p.conds())
                if s.check() == z3.sat:
                    mo = s.model()
                    got = tuple(int(str(mo.eval(core.lift(v).n, model_completion=True))) for v in p.val)
        n += 1
        if got != (y, m, d) or len(paths) != 1:
            bad.append(('fromordinal-decl', y, m, d, got, len(paths)))
    for (y, m, d) in [(2023, 2, 29), (1900, 2, 29), (2000, 13, 1), (0, 1, 1), (10000, 1, 1), (2001, 4, 31)]:
        n += 1
        try:
            real.date(y, m, d)
            rr = 'ok'
        except ValueError:
            rr = 'ValueError'
        try:
            dt.date(y, m, d)
            mm = 'ok'
        except ValueError:
            mm = 'ValueError'
        if rr != mm:
            bad.append(('validity', y, m, d))
    return n, bad


def lemmas():
    """the per-step fact behind the hint axioms of the declarative fromordinal: g(t) - g(t-1) in {365, 366}
    for g(t) = 365t + t//4 - t//100 + t//400   (strict monotonicity of the day count follows by induction)"""
    t = z3.Int('t')
    g = lambda x: 365 * x + x / 4 - x / 100 + x / 400
    s = z3.Solver()
    s.add(t >= -10000, t <= 20000, z3.Or(g(t) - g(t - 1) < 365, g(t) - g(t - 1) > 366))
    return str(s.check())
