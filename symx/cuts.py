"""symx.cuts -- FP cut lemmas: tie the exact-arithmetic (mode Q) verdicts to IEEE-754 execution.

Every place where the library *discretises* a float-typed value (floor/int/round, a comparison,
`% c`) is recorded during exploration with the operation tree of the value down to its integer
leaves and interval bounds of those leaves.  For each distinct site the lemma

    for all integer leaves within their bounds:
        discretise(IEEE-binary64 evaluation of the tree) == discretise(exact evaluation of the tree)

is decided bit-precisely in QF_FPBV.  The exact side is linear in the leaves with rational
coefficients (decimal literals as written), so  floor(v) = k  is stated division-free as
k*Q <= P(leaves) < (k+1)*Q over bit-vectors wide enough not to wrap.
"""
import time
import math
import fractions

import z3

from . import core, harness

Fr = fractions.Fraction
D64 = z3.Float64()
RNE = z3.RNE()


# --------------------------------------------------------------------------- collection (inside a worker)

def _canon(tree, order):
    if tree is None:
        return None
    op = tree[0]
    if op == 'L':
        if tree[1] not in order:
            order.append(tree[1])
        return ('L', order.index(tree[1]))
    if op == 'C':
        return tree
    return (op,) + tuple(_canon(x, order) for x in tree[1:])


def collect(ctx, paths, tighten=True, rounds=16):
    """-> picklable list of site records, merged over the paths of one exploration.
    Leaf bounds start from interval arithmetic (sound, loose) and are tightened by guess-and-verify:
    a candidate range around values seen in path models is *proved* on every path where the site
    occurs (unsat of `leaf outside range`), widened from the counterexample otherwise."""
    sites = {}
    occ = {}
    for pi, p in enumerate(paths):
        leaves = p.extra.get('leaves', {})
        for (kind, line, ta, tb) in p.sites:
            order = []
            ca = _canon(ta, order)
            cb = _canon(tb, order) if tb is not None else None
            sig = repr((kind, line, ca, cb))
            bounds = []
            for key in order:
                iv = leaves.get(key, (None, None))[1]
                bounds.append(None if iv is None else (math.floor(iv[0]), math.ceil(iv[1])))
            rec = sites.get(sig)
            if rec is None:
                sites[sig] = {'kind': kind, 'line': line, 'a': ca, 'b': cb, 'bounds': bounds, 'count': 1,
                              'tracked': ta is not None and (tb is not None or kind in ('floor', 'trunc', 'round')),
                              'bounds_from': 'interval arithmetic'}
            else:
                rec['count'] += 1
                for i, b in enumerate(bounds):
                    o = rec['bounds'][i]
                    rec['bounds'][i] = None if (o is None or b is None) else (min(o[0], b[0]), max(o[1], b[1]))
            occ.setdefault(sig, {}).setdefault(pi, [leaves[k][0] for k in order])
    if not tighten:
        return list(sites.values())
    solvers = {}

    def solver(pi):
        s = solvers.get(pi)
        if s is None:
            s = z3.Solver()
            s.set('timeout', 3000)
            for c in ctx.pre:
                s.add(c)
            for c in paths[pi].conds():
                s.add(c)
            solvers[pi] = s
        return s
    models = {}
    for sig, rec in sites.items():
        if rec['a'] is None or any(b is None for b in rec['bounds']):
            continue
        nl = len(rec['bounds'])
        new_bounds = []
        ok = True
        for i in range(nl):
            ia = rec['bounds'][i]
            if ia[1] - ia[0] <= 64:
                new_bounds.append(ia)
                continue
            vals = []
            for pi, exprs in occ[sig].items():
                if pi not in models:
                    s = solver(pi)
                    models[pi] = s.model() if s.check() == z3.sat else None
                if models[pi] is not None:
                    vals.append(models[pi].eval(exprs[i], model_completion=True).as_long())
            if not vals:
                new_bounds.append(ia)
                continue
            lo, hi = min(vals), max(vals)
            delta = max(2, (hi - lo) // 2)
            done = False
            for _ in range(rounds):
                clo, chi = max(ia[0], lo - delta), min(ia[1], hi + delta)
                cex = None
                for pi, exprs in occ[sig].items():
                    s = solver(pi)
                    s.push()
                    s.add(z3.Or(exprs[i] < clo, exprs[i] > chi))
                    r = s.check()
                    if r == z3.sat:
                        cex = s.model().eval(exprs[i], model_completion=True).as_long()
                    s.pop()
                    if r != z3.unsat:
                        if r != z3.sat:
                            cex = 'unknown'
                        break
                if cex is None:
                    new_bounds.append((clo, chi))
                    done = True
                    break
                if cex != 'unknown':
                    lo, hi = min(lo, cex), max(hi, cex)
                delta *= 4
            if not done:
                rec.setdefault('tighten_notes', []).append('leaf %d: fell back to interval arithmetic (last candidate %s..%s)' % (i, lo, hi))
                new_bounds.append(ia)
        rec['bounds'] = new_bounds
        rec['bounds_from'] = 'guess-and-verify on every path (solver-proved), capped by interval arithmetic'
    return list(sites.values())


# --------------------------------------------------------------------------- encoding

def lin(tree):
    """exact value of a tree as (coeffs {leaf: Fraction}, const Fraction); None if not linear"""
    op = tree[0]
    if op == 'L':
        return ({tree[1]: Fr(1)}, Fr(0))
    if op == 'C':
        return ({}, Fr(repr(tree[1])))
    if op == 'neg':
        a = lin(tree[1])
        return None if a is None else ({k: -v for k, v in a[0].items()}, -a[1])
    if op in ('+', '-'):
        a, b = lin(tree[1]), lin(tree[2])
        if a is None or b is None:
            return None
        sg = 1 if op == '+' else -1
        co = dict(a[0])
        for k, v in b[0].items():
            co[k] = co.get(k, Fr(0)) + sg * v
        return (co, a[1] + sg * b[1])
    if op == '*':
        a, b = lin(tree[1]), lin(tree[2])
        if a is None or b is None:
            return None
        if not a[0]:
            return ({k: v * a[1] for k, v in b[0].items()}, a[1] * b[1])
        if not b[0]:
            return ({k: v * b[1] for k, v in a[0].items()}, a[1] * b[1])
        return None
    if op == '/':
        a, b = lin(tree[1]), lin(tree[2])
        if a is None or b is None or b[0] or b[1] == 0:
            return None
        return ({k: v / b[1] for k, v in a[0].items()}, a[1] / b[1])
    return None


def fp(tree, leaf_fp):
    op = tree[0]
    if op == 'L':
        return leaf_fp[tree[1]]
    if op == 'C':
        return z3.FPVal(tree[1], D64)
    if op == 'neg':
        return z3.fpNeg(fp(tree[1], leaf_fp))
    if op == 'abs':
        return z3.fpAbs(fp(tree[1], leaf_fp))
    a, b = fp(tree[1], leaf_fp), fp(tree[2], leaf_fp)
    if op == '+':
        return z3.fpAdd(RNE, a, b)
    if op == '-':
        return z3.fpSub(RNE, a, b)
    if op == '*':
        return z3.fpMul(RNE, a, b)
    if op == '/':
        return z3.fpDiv(RNE, a, b)
    raise core.EngineError('fp tree op ' + op)


def dyadic(tree, bounds):
    """(k, maxabs) if every value the tree can take is a multiple of 2^-k with |value|*2^k < 2^53 at every node,
    i.e. the IEEE evaluation is exact by construction; else None"""
    op = tree[0]
    if op == 'L':
        b = bounds[tree[1]]
        if b is None:
            return None
        r = (0, Fr(max(abs(b[0]), abs(b[1]))))
    elif op == 'C':
        f = Fr(tree[1])
        if f != Fr(repr(tree[1])):
            return None
        k = f.denominator.bit_length() - 1
        if 2 ** k != f.denominator:
            return None
        r = (k, abs(f))
    elif op in ('neg', 'abs'):
        r = dyadic(tree[1], bounds)
    else:
        a, b = dyadic(tree[1], bounds), dyadic(tree[2], bounds)
        if a is None or b is None:
            return None
        if op in ('+', '-'):
            r = (max(a[0], b[0]), a[1] + b[1])
        elif op == '*':
            r = (a[0] + b[0], a[1] * b[1])
        elif op == '/':
            if tree[2][0] != 'C':
                return None
            c = Fr(tree[2][1])
            if c <= 0 or c.denominator != 1 or (c.numerator & (c.numerator - 1)) != 0:
                return None
            j = c.numerator.bit_length() - 1
            r = (a[0] + j, a[1] / c)
        else:
            return None
    if r is None or r[1] * 2 ** r[0] >= 2 ** 53:
        return None
    return r


def _bits(n):
    return max(2, int(n).bit_length() + 1)


def build(site):
    """-> (solver, leaf bit-vectors) whose `sat` models are exactly the leaf values where IEEE and exact
    discretisation differ;  None if the site cannot be stated"""
    kind, ta, tb, bounds = site['kind'], site['a'], site['b'], site['bounds']
    if ta is None or any(b is None for b in bounds):
        return None
    la = lin(ta)
    lb = lin(tb) if tb is not None else None
    if la is None or (tb is not None and lb is None):
        return None
    nleaf = len(bounds)
    # common denominator so that exact values are integers / Q
    dens = [v.denominator for v in la[0].values()] + [la[1].denominator]
    if lb is not None:
        dens += [v.denominator for v in lb[0].values()] + [lb[1].denominator]
    Q = 1
    for d_ in dens:
        Q = Q * d_ // math.gcd(Q, d_)

    def maxabs(l):
        return sum(abs(v * Q) * max(abs(bounds[k][0]), abs(bounds[k][1])) for k, v in l[0].items()) + abs(l[1] * Q)
    big = maxabs(la) + (maxabs(lb) if lb is not None else 0)
    W = _bits(int(big) * 4 + Q * 8) + 2
    W = max(W, 16)
    lw = [max(_bits(max(abs(b[0]), abs(b[1]))), 4) for b in bounds]
    if any(w > 53 for w in lw):
        return None
    leaves = [z3.BitVec('L%d' % i, lw[i]) for i in range(nleaf)]
    s = z3.Solver()
    for i, b in enumerate(bounds):
        s.add(leaves[i] >= b[0], leaves[i] <= b[1])
    leaf_fp = [z3.fpSignedToFP(RNE, leaves[i], D64) for i in range(nleaf)]
    wide = [z3.SignExt(W - lw[i], leaves[i]) for i in range(nleaf)]

    def P(l):
        e = z3.BitVecVal(int(l[1] * Q), W)
        for k, v in l[0].items():
            e = e + z3.BitVecVal(int(v * Q), W) * wide[k]
        return e
    va = fp(ta, leaf_fp)
    if kind in ('floor', 'trunc', 'round') or (kind == 'mod' and tb == ('C', 1.0)):
        # k = floor(IEEE value);   equal floors  <=>  k*Q <= P < (k+1)*Q
        if kind == 'trunc':
            kf = z3.fpRoundToIntegral(z3.RTZ(), va)
        elif kind == 'round':
            kf = z3.fpRoundToIntegral(z3.RNE(), va)
        else:
            kf = z3.fpRoundToIntegral(z3.RTN(), va)
        k = z3.fpToSBV(z3.RTZ(), kf, z3.BitVecSort(W))
        Pa = P(la)
        Qb = z3.BitVecVal(Q, W)
        if kind == 'floor' or kind == 'mod':
            same = z3.And(k * Qb <= Pa, Pa < (k + 1) * Qb)
        elif kind == 'trunc':
            same = z3.If(Pa >= 0, z3.And(k * Qb <= Pa, Pa < (k + 1) * Qb), z3.And((k - 1) * Qb < Pa, Pa <= k * Qb))
            # a tiny negative IEEE value truncating to -0 with an exact value >= 0 is covered by the first arm
        else:
            # round half even: |2P - 2kQ| <= Q, ties only to even k
            d2 = 2 * Pa - 2 * k * Qb
            same = z3.And(d2 <= Qb, d2 >= -Qb, z3.Implies(z3.Or(d2 == Qb, d2 == -Qb), z3.Extract(0, 0, k) == 0))
        s.add(z3.Not(z3.fpIsNaN(va)), z3.Not(z3.fpIsInf(va)))
        s.add(z3.Not(same))
        return s, leaves
    if kind == 'mod':
        # x % c with c != 1: demand that the IEEE value of x is exact and integral (then fmod is exact too)
        if Q != 1 or la is None:
            return None
        s.add(z3.Not(z3.fpEQ(va, z3.fpSignedToFP(RNE, P(la), D64))))
        return s, leaves
    if kind.startswith('cmp'):
        vb = fp(tb, leaf_fp)
        op = kind[3:]
        Pa, Pb = P(la), P(lb)
        fpop = {'<': z3.fpLT, '<=': z3.fpLEQ, '>': z3.fpGT, '>=': z3.fpGEQ, '==': z3.fpEQ, '!=': z3.fpNEQ}[op]
        ex = {'<': Pa < Pb, '<=': Pa <= Pb, '>': Pa > Pb, '>=': Pa >= Pb, '==': Pa == Pb, '!=': Pa != Pb}[op]
        s.add(fpop(va, vb) != ex)
        return s, leaves
    return None


def prove(arg):
    site, timeout_s, cap = arg
    t = harness.Task('cut %s %s' % (site['line'], site['kind']))
    desc = '%s %s leaves=%s' % (site['line'], site['kind'], site['bounds'])
    if site['a'] is not None and all(x is not None for x in site['bounds']):
        da = dyadic(site['a'], site['bounds'])
        db = dyadic(site['b'], site['bounds']) if site['b'] is not None else (0, 0)
        if da is not None and db is not None:
            t.extra = {'site': desc, 'status': 'exact-by-construction', 'secs': 0,
                       'why': 'all constants dyadic, every intermediate value a multiple of 2^-%d below 2^53: no rounding occurs' % max(da[0], db[0]),
                       'tree': repr(site['a'])[:300], 'occurrences': site['count']}
            return t
    b = build(site)
    if b is None:
        t.extra = {'site': desc, 'status': 'untracked', 'secs': 0}
        return t
    s, leaves = b
    s.set('timeout', int(timeout_s * 1000))
    t0 = time.time()
    exc = []
    status = None
    while True:
        r = s.check()
        if r == z3.unsat:
            status = 'proved' if not exc else 'exceptions'
            break
        if r != z3.sat:
            status = 'undecided'
            break
        m = s.model()
        vals = [m.eval(l, model_completion=True).as_signed_long() for l in leaves]
        exc.append(vals)
        if len(exc) > cap:
            status = 'too-many-exceptions'
            break
        s.add(z3.Or(*[l != v for l, v in zip(leaves, vals)]))
    t.extra = {'site': desc, 'status': status, 'secs': round(time.time() - t0, 2), 'exceptional_leaf_values': exc[:cap],
               'tree': repr(site['a'])[:300] + (' ; ' + repr(site['b'])[:200] if site['b'] is not None else ''),
               'occurrences': site['count']}
    return t


def _merge_chunks(res, items):
    out = []
    groups = {}
    for r, (site, _, _) in zip(res, items):
        key = site.get('chunk_of')
        if key is None or r.error:
            out.append(r)
            continue
        groups.setdefault(key, []).append((r, site))
    order = ['proved', 'exact-by-construction', 'exceptions', 'too-many-exceptions', 'undecided', 'untracked']
    for key, lst in groups.items():
        r0 = lst[0][0]
        worst = max((r.extra['status'] for r, _ in lst), key=order.index)
        lo = min(s_['bounds'][[i for i, x in enumerate(s_['bounds'])][0]][0] for _, s_ in lst)
        r0.extra = dict(r0.extra)
        r0.extra['status'] = worst
        r0.extra['secs'] = round(sum(r.extra['secs'] for r, _ in lst), 2)
        r0.extra['site'] = '%s %s leaves=%s (decided in %d chunks of the wide leaf range)' % (
            lst[0][1]['line'], lst[0][1]['kind'], eval(key)[4], len(lst))
        r0.extra['exceptional_leaf_values'] = [v for r, _ in lst for v in r.extra.get('exceptional_leaf_values', [])]
        out.append(r0)
    return out


def discharge(chk, tasks, tier, timeout_s=None, cap=16):
    merged = {}
    for t in tasks:
        for sdesc in getattr(t, 'sites', []) or []:
            sig = repr((sdesc['kind'], sdesc['line'], sdesc['a'], sdesc['b']))
            o = merged.get(sig)
            if o is None:
                merged[sig] = dict(sdesc)
            else:
                o['count'] += sdesc['count']
                for i, b in enumerate(sdesc['bounds']):
                    ob = o['bounds'][i]
                    o['bounds'][i] = None if (ob is None or b is None) else (min(ob[0], b[0]), max(ob[1], b[1]))
    if timeout_s is None:
        timeout_s = 60 if tier == 'quick' else 900
    items = []
    for s_ in merged.values():
        b = s_['bounds']
        wide = [i for i, x in enumerate(b) if x is not None and x[1] - x[0] > 2 ** 17]
        if s_['a'] is not None and len(wide) == 1 and all(x is not None for x in b):
            # split the one wide leaf range into chunks (a finite case split of the quantifier domain)
            i = wide[0]
            lo, hi = b[i]
            n = 16
            step = (hi - lo) // n + 1
            for c in range(n):
                clo, chi = lo + c * step, min(hi, lo + (c + 1) * step - 1)
                if clo > chi:
                    continue
                s2 = dict(s_)
                s2['bounds'] = list(b)
                s2['bounds'][i] = (clo, chi)
                s2['chunk_of'] = repr((s_['kind'], s_['line'], s_['a'], s_['b'], b))
                items.append((s2, timeout_s, cap))
        else:
            items.append((s_, timeout_s, cap))
    t0 = time.time()
    res = _merge_chunks(harness.pmap(prove, items), items)
    out = []
    counts = {}
    for r in res:
        if r.error:
            chk.inconclusive.append('cut lemma crashed: ' + r.error)
            continue
        e = r.extra
        out.append(e)
        counts[e['status']] = counts.get(e['status'], 0) + 1
        if e['status'] == 'undecided':
            chk.assumptions.append('IEEE-754 evaluation discretises like exact arithmetic at %s (cut lemma not decided within %ds in this tier)' % (e['site'], timeout_s))
        elif e['status'] == 'untracked':
            chk.assumptions.append('IEEE-754 evaluation discretises like exact arithmetic at %s (no lemma generated: value has no integer-leaf operation tree)' % e['site'])
        elif e['status'] in ('exceptions', 'too-many-exceptions'):
            chk.assumptions.append('at %s IEEE-754 and exact arithmetic discretise differently for leaf values %s%s; the exact-arithmetic verdict does not cover inputs producing them' % (
                e['site'], e['exceptional_leaf_values'][:8], ' (and more)' if e['status'] == 'too-many-exceptions' else ''))
    chk.extra['cut_lemmas'] = out
    chk.extra['cut_lemma_summary'] = counts
    chk.log('cut lemmas: %s in %.1fs' % (counts, time.time() - t0))
    return out
