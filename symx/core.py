"""symx.core -- symbolic numbers and path exploration over the *real* pymeeus source.

Numbers are proxy objects.  Kinds:
  'q'  exact scaled integer  N/D  (N: z3 Int term, D: positive python int)   -> linear integer arithmetic
  'r'  z3 Real term (non-linear allowed; optional angle provenance for mode T, see trig.py)
Every branch on a symbolic condition goes through Ctx.decide(), which explores
both feasible outcomes by re-execution with a decision prefix (DFS).
"""
import os
import sys
import time
import fractions
import math
import z3

Fr = fractions.Fraction


class Abort(BaseException):
    """current path is infeasible"""


class Unwind(BaseException):
    """decision budget of the path exhausted (loop unwinding bound)"""


class EngineError(BaseException):
    """the executor met something it cannot encode: harness error, never a verdict"""


# --------------------------------------------------------------------------- context

CUR = None          # the active Ctx
MULU = z3.Function('mulU', z3.RealSort(), z3.RealSort(), z3.RealSort())


class Path(object):
    __slots__ = ('pc', 'axioms', 'kind', 'val', 'exc', 'sites', 'notes', 'decisions', 'extra')

    def __init__(self):
        self.pc = []
        self.axioms = []
        self.kind = None
        self.val = None
        self.exc = None
        self.sites = []
        self.notes = []
        self.decisions = 0
        self.extra = {}

    def conds(self):
        return list(self.pc) + list(self.axioms)


class Ctx(object):
    def __init__(self, pre, max_decisions=300, timeout_ms=20000, trig=None, check_div0=True,
                 track_sites=False, max_paths=5000, opaque_mul=False, fresh_div=False, max_seconds=None, lazy=False):
        self.pre = list(pre) if isinstance(pre, (list, tuple)) else [pre]
        self.max_decisions = max_decisions
        self.timeout_ms = timeout_ms
        self.trig = trig
        self.check_div0 = check_div0
        self.track_sites = track_sites
        self.max_paths = max_paths
        self.opaque_mul = opaque_mul
        self.fresh_div = fresh_div
        self.lazy = lazy
        self.max_seconds = max_seconds or float(os.environ.get('SYMX_EXPLORE_BUDGET_S', '0') or 0) or None
        self.t_start = time.time()
        self.nq = 0
        self.t_solver = 0.0
        self.unknown_feas = 0
        self.div0_unknown = 0
        self.hooks = {}
        self._reset_path()

    # ---- per path state
    def _reset_path(self):
        self.prefix = []
        self.pos = 0
        self.path = Path()
        self.solver = None
        self.fresh = 0
        self.atoms = {}       # mode T
        self.leaves = {}      # z3 id -> (expr, iv)
        self.memo = {}

    def new_solver(self):
        s = z3.Solver()
        s.set('timeout', self.timeout_ms)
        for c in self.pre:
            s.add(c)
        return s

    def fresh_name(self, base):
        self.fresh += 1
        return '%s!%d' % (base, self.fresh)

    def _check(self, extra):
        self.nq += 1
        t0 = time.time()
        self.solver.push()
        self.solver.add(extra)
        r = self.solver.check()
        self.solver.pop()
        self.t_solver += time.time() - t0
        return r

    def assume(self, c):
        """add a definitional axiom (fresh-variable definition / sound fact) to the path"""
        self.path.axioms.append(c)
        self.solver.add(c)

    def decide(self, cond, weak_true=False):
        """weak_true: an `unknown` answer for the True side counts as infeasible (recorded as an
        assumption) -- used for implicit error branches (division by zero, sqrt domain)."""
        if isinstance(cond, bool):
            return cond
        cond = z3.simplify(cond)
        if z3.is_true(cond):
            return True
        if z3.is_false(cond):
            return False
        if self.pos < len(self.prefix):
            v = self.prefix[self.pos]
        else:
            if self.pos >= self.max_decisions:
                raise Unwind()
            if self.max_seconds and time.time() - self.t_start > self.max_seconds:
                raise EngineError('exploration exceeded its wall-clock budget of %ds' % self.max_seconds)
            if self.lazy:
                # lazy mode (expensive theories): take both sides without asking; the whole path condition is
                # decided once when the path is complete, infeasible paths are dropped there
                self.todo.append(self.prefix[:self.pos] + [False])
                self.prefix.append(True)
                self.pos += 1
                self.path.pc.append(cond)
                self.solver.add(cond)
                if 'lazy' not in self.path.notes:
                    self.path.notes.append('lazy')
                return True
            rt = self._check(cond)
            if weak_true and rt == z3.unknown:
                self.div0_unknown += 1
                rt = z3.unsat
                rf = z3.sat
            elif rt == z3.unsat:
                rf = z3.sat         # the path so far is satisfiable, so the other side is
            else:
                rf = self._check(z3.Not(cond))
            t_ok = rt != z3.unsat
            f_ok = rf != z3.unsat
            if rt == z3.unknown or rf == z3.unknown:
                self.unknown_feas += 1
                self.path.notes.append('unknown-feasibility')
            if t_ok and f_ok:
                self.todo.append(self.prefix[:self.pos] + [False])
                v = True
            elif t_ok:
                v = True
            elif f_ok:
                v = False
            else:
                raise Abort()
            self.prefix.append(v)
        self.pos += 1
        c = cond if v else z3.Not(cond)
        self.path.pc.append(c)
        self.solver.add(c)
        return v

    def model_value(self, expr):
        """a concrete value of expr consistent with the current path (for concretisation)"""
        self.nq += 1
        t0 = time.time()
        r = self.solver.check()
        self.t_solver += time.time() - t0
        if r != z3.sat:
            if r == z3.unsat:
                raise Abort()
            raise EngineError('unknown while concretising')
        return self.solver.model().eval(expr, model_completion=True)

    # ---- driver
    def run(self, fn):
        global CUR
        paths = []
        self.todo = [[]]
        prev = CUR
        CUR = self
        try:
            while self.todo:
                if len(paths) >= self.max_paths:
                    raise EngineError('path budget exhausted (%d)' % self.max_paths)
                pref = self.todo.pop()
                self._reset_path()
                self.prefix = pref
                self.solver = self.new_solver()
                p = self.path
                try:
                    p.val = fn()
                    p.kind = 'ok'
                except Abort:
                    continue
                except Unwind:
                    p.kind = 'unwind'
                except EngineError:
                    raise
                except z3.Z3Exception:
                    raise
                except Exception as e:      # an exception raised by the library code
                    p.kind = 'exc'
                    p.exc = e
                p.decisions = self.pos
                if 'unknown-feasibility' in p.notes or self.lazy:
                    # some branch on this path was taken on an `unknown` answer: re-decide the whole path condition
                    # with a larger budget; an infeasible path is dropped, an undecided one stays (and is flagged)
                    s2 = self.new_solver()
                    s2.set('timeout', (1 if self.lazy else 8) * self.timeout_ms)
                    for c in p.conds():
                        s2.add(c)
                    t0 = time.time()
                    r = s2.check()
                    self.nq += 1
                    self.t_solver += time.time() - t0
                    if r == z3.unsat:
                        continue
                    if r == z3.unknown:
                        p.notes.append('path-feasibility-undecided')
                p.extra['atoms'] = self.atoms
                p.extra['leaves'] = self.leaves
                paths.append(p)
        finally:
            CUR = prev
        return paths


def explore(fn, pre, **kw):
    ctx = Ctx(pre, **kw)
    paths = ctx.run(fn)
    return ctx, paths


def check(ctx, path, bad, timeout_ms=None, extra=(), use_pc=True):
    """decide  pre /\\ pc /\\ axioms /\\ bad ;  returns ('unsat'|'sat'|'unknown', model_or_None, seconds).
    use_pc=False drops the branch conditions (only definitional axioms stay): a stronger claim, used for identities
    that do not depend on which branch was taken"""
    s = z3.Solver()
    s.set('timeout', timeout_ms or ctx.timeout_ms)
    for c in ctx.pre:
        s.add(c)
    for c in (path.conds() if use_pc else path.axioms):
        s.add(c)
    for c in extra:
        s.add(c)
    s.add(bad)
    t0 = time.time()
    r = s.check()
    dt = time.time() - t0
    ctx.nq += 1
    ctx.t_solver += dt
    return str(r), (s.model() if r == z3.sat else None), dt


# --------------------------------------------------------------------------- booleans

class SBool(object):
    __slots__ = ('e',)

    def __init__(self, e):
        self.e = e

    def __bool__(self):
        return CUR.decide(self.e)

    def __eq__(self, o):
        if isinstance(o, SBool):
            return SBool(self.e == o.e)
        if isinstance(o, bool):
            return SBool(self.e if o else z3.Not(self.e))
        if isinstance(o, (int, float)):
            return SBool(z3.If(self.e, 1, 0) == o)
        return NotImplemented

    def __ne__(self, o):
        r = self.__eq__(o)
        return r if r is NotImplemented else SBool(z3.Not(r.e))

    __hash__ = None

    def __and__(self, o):
        return SBool(z3.And(self.e, bexpr(o)))

    def __or__(self, o):
        return SBool(z3.Or(self.e, bexpr(o)))

    def __invert__(self):
        return SBool(z3.Not(self.e))

    def __format__(self, spec):
        return '<sbool>'


def bexpr(b):
    if isinstance(b, SBool):
        return b.e
    if isinstance(b, bool):
        return z3.BoolVal(b)
    if z3.is_bool(b):
        return b
    raise EngineError('not a boolean: %r' % (b,))


# --------------------------------------------------------------------------- intervals

def iv_add(a, b):
    if a is None or b is None:
        return None
    return (a[0] + b[0], a[1] + b[1])


def iv_neg(a):
    return None if a is None else (-a[1], -a[0])


def iv_mulc(a, c):
    if a is None:
        return None
    x, y = a[0] * c, a[1] * c
    return (min(x, y), max(x, y))


def iv_mul(a, b):
    if a is None or b is None:
        return None
    xs = [a[0] * b[0], a[0] * b[1], a[1] * b[0], a[1] * b[1]]
    return (min(xs), max(xs))


def iv_abs(a):
    if a is None:
        return None
    if a[0] >= 0:
        return a
    if a[1] <= 0:
        return (-a[1], -a[0])
    return (Fr(0), max(-a[0], a[1]))


def iv_floor(a):
    return None if a is None else (Fr(math.floor(a[0])), Fr(math.floor(a[1])))


def iv_trunc(a):
    return None if a is None else (Fr(math.trunc(a[0])), Fr(math.trunc(a[1])))


def iv_join(a, b):
    if a is None or b is None:
        return None
    return (min(a[0], b[0]), max(a[1], b[1]))


# --------------------------------------------------------------------------- numbers

def _lcm(a, b):
    return a * b // math.gcd(a, b)


def frac_of_float(v):
    """the decimal value a float literal was written with (shortest repr) -- 'as printed by Meeus'"""
    return Fr(repr(v))


class Num(object):
    __slots__ = ('k', 'n', 'd', 'e', 'ty', 'iv', 'tree', 'ang')

    def __init__(self, k, n=None, d=1, e=None, ty=float, iv=None, tree=None, ang=None):
        self.k = k
        self.n = n
        self.d = d
        self.e = e
        self.ty = ty
        self.iv = iv
        self.tree = tree
        self.ang = ang

    # -- constructors
    @staticmethod
    def const(v):
        if isinstance(v, bool):
            v = int(v)
        if isinstance(v, int):
            return Num('q', z3.IntVal(v), 1, ty=int, iv=(Fr(v), Fr(v)))
        if isinstance(v, float):
            if v != v or v in (float('inf'), float('-inf')):
                raise EngineError('non-finite constant')
            f = frac_of_float(v)
            return Num('q', z3.IntVal(f.numerator), f.denominator, ty=float, iv=(f, f), tree=('C', v))
        if isinstance(v, Fr):
            return Num('q', z3.IntVal(v.numerator), v.denominator, ty=float, iv=(v, v))
        raise TypeError('cannot lift %r' % type(v))

    @staticmethod
    def int_var(name, lo=None, hi=None):
        iv = (Fr(lo), Fr(hi)) if lo is not None and hi is not None else None
        return Num('q', z3.Int(name), 1, ty=int, iv=iv)

    @staticmethod
    def real_var(name, ty=float):
        return Num('r', e=z3.Real(name), ty=ty)

    @staticmethod
    def scaled_var(name, den, lo=None, hi=None):
        """a float-typed value  N/den  with symbolic integer N  (e.g. a time of day in ms)"""
        iv = (Fr(lo), Fr(hi)) if lo is not None and hi is not None else None
        return Num('q', z3.Int(name), den, ty=float, iv=iv, tree=('S',))

    # -- views
    def cval(self):
        """Fraction if the value is a constant, else None"""
        if self.k == 'q':
            s = self.n if z3.is_int_value(self.n) else z3.simplify(self.n)
            if z3.is_int_value(s):
                return Fr(s.as_long(), self.d)
            return None
        s = z3.simplify(self.e)
        if z3.is_rational_value(s):
            return Fr(s.numerator_as_long(), s.denominator_as_long())
        return None

    def re(self):
        """z3 Real term of the value"""
        if self.k == 'r':
            return self.e
        if self.d == 1:
            return z3.ToReal(self.n)
        return z3.ToReal(self.n) / z3.RealVal(self.d)

    def ie(self):
        """z3 Int term; only for integral q values"""
        if self.k == 'q' and self.d == 1:
            return self.n
        raise EngineError('not an integer term')

    def _tree(self):
        if self.k != 'q':
            return None
        if self.ty is int and self.d == 1:
            c = self.cval()
            if c is not None:
                return ('C', float(int(c))) if abs(c) < 2 ** 53 else None
            return ('L', _leaf(self))
        if self.tree == ('S',):
            # a scaled input variable N/D: the double nearest to N/D, i.e. fl(N)/fl(D) rounded once
            return ('/', ('L', _leaf(Num('q', self.n, 1, ty=int, iv=iv_mulc(self.iv, Fr(self.d))))), ('C', float(self.d)))
        return self.tree

    # -- arithmetic
    def __add__(s, o):
        o = lift(o)
        if o is NotImplemented:
            return NotImplemented
        ty = float if float in (s.ty, o.ty) else int
        if s.k == 'q' and o.k == 'q':
            D = _lcm(s.d, o.d)
            tr = _mk_tree('+', s, o) if ty is float else None
            return Num('q', s.n * (D // s.d) + o.n * (D // o.d), D, ty=ty, iv=iv_add(s.iv, o.iv), tree=tr)
        ang = None
        if s.ang is not None or o.ang is not None:
            from . import trig
            ang = trig.ang_add(s, o)
        return Num('r', e=s.re() + o.re(), ty=ty, ang=ang)

    def __radd__(s, o):
        o = lift(o)
        return NotImplemented if o is NotImplemented else o.__add__(s)

    def __neg__(s):
        if s.k == 'q':
            return Num('q', -s.n, s.d, ty=s.ty, iv=iv_neg(s.iv), tree=_mk_tree1('neg', s) if s.ty is float else None)
        ang = None
        if s.ang is not None:
            from . import trig
            ang = trig.ang_scale(s.ang, Fr(-1))
        return Num('r', e=-s.e, ty=s.ty, ang=ang)

    def __pos__(s):
        return s

    def __sub__(s, o):
        o = lift(o)
        if o is NotImplemented:
            return NotImplemented
        ty = float if float in (s.ty, o.ty) else int
        if s.k == 'q' and o.k == 'q':
            D = _lcm(s.d, o.d)
            tr = _mk_tree('-', s, o) if ty is float else None
            return Num('q', s.n * (D // s.d) - o.n * (D // o.d), D, ty=ty, iv=iv_add(s.iv, iv_neg(o.iv)), tree=tr)
        return s.__add__(o.__neg__())

    def __rsub__(s, o):
        o = lift(o)
        return NotImplemented if o is NotImplemented else o.__sub__(s)

    def __mul__(s, o):
        o = lift(o)
        if o is NotImplemented:
            return NotImplemented
        ty = float if float in (s.ty, o.ty) else int
        if s.k == 'q' and o.k == 'q':
            tr = _mk_tree('*', s, o) if ty is float else None
            c = o.cval()
            a = s
            if c is None:
                c = s.cval()
                a = o
            if c is not None:
                num, den = c.numerator, c.denominator
                if num == 0:
                    return Num('q', z3.IntVal(0), 1, ty=ty, iv=(Fr(0), Fr(0)), tree=tr)
                D = a.d * den
                g = math.gcd(abs(num), D)
                return Num('q', a.n * (num // g), D // g, ty=ty, iv=iv_mulc(a.iv, c), tree=tr)
            if CUR is not None and CUR.opaque_mul:
                return Num('r', e=s.re(), ty=s.ty).__mul__(Num('r', e=o.re(), ty=o.ty))
            return Num('q', s.n * o.n, s.d * o.d, ty=ty, iv=iv_mul(s.iv, o.iv), tree=tr)
        ang = None
        if s.ang is not None or o.ang is not None:
            from . import trig
            ang = trig.ang_mul(s, o)
        if CUR is not None and CUR.opaque_mul and s.cval() is None and o.cval() is None:
            # uninterpreted-product abstraction: product of two non-constant terms becomes mulU(a, b);
            # congruence keeps equal operands giving equal products, nothing else is known about it
            a, b = s.re(), o.re()
            if a.get_id() > b.get_id():
                a, b = b, a
            return Num('r', e=MULU(a, b), ty=ty)
        return Num('r', e=s.re() * o.re(), ty=ty, ang=ang)

    def __rmul__(s, o):
        o = lift(o)
        return NotImplemented if o is NotImplemented else o.__mul__(s)

    def __truediv__(s, o):
        o = lift(o)
        if o is NotImplemented:
            return NotImplemented
        c = o.cval()
        if c is not None:
            if c == 0:
                raise ZeroDivisionError('float division by zero')
            if s.k == 'q':
                r = s.__mul__(Num.const(Fr(1) / c))
                r.ty = float
                r.tree = _mk_tree('/', s, o)
                return r
            ang = None
            if s.ang is not None:
                from . import trig
                ang = trig.ang_scale(s.ang, Fr(1) / c)
            return Num('r', e=s.e / z3.RealVal(str(c)), ty=float, ang=ang)
        _div0_check(o)
        if CUR is not None and CUR.fresh_div:
            # quotient as a fresh real tied to its operands by a polynomial equation (no division term in queries)
            qv = z3.Real(CUR.fresh_name('quot'))
            den = o.re()
            CUR.assume(z3.And(den != 0, qv * den == s.re()))
            return Num('r', e=qv, ty=float)
        return Num('r', e=s.re() / o.re(), ty=float)

    def __rtruediv__(s, o):
        o = lift(o)
        return NotImplemented if o is NotImplemented else o.__truediv__(s)

    def floor(s):
        if s.k == 'q':
            if s.d == 1:
                return Num('q', s.n, 1, ty=int, iv=s.iv)
            if s.ty is float:
                _site('floor', s)
            return Num('q', s.n / s.d, 1, ty=int, iv=iv_floor(s.iv))
        r_ = Num('q', z3.ToInt(s.e), 1, ty=int)
        if CUR is not None:
            CUR.memo.setdefault('rounds', []).append((r_.n, s))
        return r_

    def trunc(s):
        if s.k == 'q':
            if s.d == 1:
                return Num('q', s.n, 1, ty=int, iv=s.iv)
            if s.ty is float:
                _site('trunc', s)
            return Num('q', z3.If(s.n >= 0, s.n / s.d, -((-s.n) / s.d)), 1, ty=int, iv=iv_trunc(s.iv))
        f = z3.ToInt(s.e)
        r_ = Num('q', z3.If(s.e >= 0, f, -z3.ToInt(-s.e)), 1, ty=int)
        if CUR is not None:
            CUR.memo.setdefault('rounds', []).append((r_.n, s))
        return r_

    def __floordiv__(s, o):
        o = lift(o)
        if o is NotImplemented:
            return NotImplemented
        ty = float if float in (s.ty, o.ty) else int
        if ty is int and s.k == 'q' and o.k == 'q':
            c = o.cval()
            if c is not None and c > 0:
                return Num('q', s.n / int(c), 1, ty=int, iv=iv_floor(iv_mulc(s.iv, Fr(1) / c)))
            _div0_check(o)
            # python floor division for symbolic divisor
            q = z3.If(o.n > 0, s.n / o.n, (-s.n) / (-o.n))
            return Num('q', q, 1, ty=int)
        r = s.__truediv__(o).floor()
        if ty is float:
            r = Num(r.k, r.n, r.d, r.e, ty=float, iv=r.iv)
        return r

    def __rfloordiv__(s, o):
        o = lift(o)
        return NotImplemented if o is NotImplemented else o.__floordiv__(s)

    def __mod__(s, o):
        o = lift(o)
        if o is NotImplemented:
            return NotImplemented
        ty = float if float in (s.ty, o.ty) else int
        c = o.cval()
        if ty is int and s.k == 'q' and o.k == 'q' and s.d == 1 and o.d == 1:
            if c is not None and c > 0:
                return Num('q', s.n % int(c), 1, ty=int, iv=(Fr(0), c - 1))
            _div0_check(o)
            m = z3.If(o.n > 0, s.n % o.n, -((-s.n) % (-o.n)))
            return Num('q', m, 1, ty=int)
        if c is not None and c > 0 and s.k == 'q':
            # x mod c = x - c*floor(x/c)   (python semantics for c > 0)
            if s.ty is float or o.ty is float:
                _site('mod', s, o)
            q = s.__truediv__(o)
            qf = Num('q', q.n / q.d, 1, ty=int) if q.d != 1 else Num('q', q.n, 1, ty=int)
            r = s.__sub__(o.__mul__(qf))
            return Num('q', r.n, r.d, ty=ty, iv=(Fr(0), c), tree=None if ty is float else None)
        if c is not None and c > 0:
            q = z3.ToInt(s.re() / z3.RealVal(str(c)))
            ang = None
            if s.ang is not None:
                from . import trig
                ang = trig.ang_mod(s, c)
            return Num('r', e=s.re() - z3.RealVal(str(c)) * z3.ToReal(q), ty=ty, ang=ang)
        _div0_check(o)
        # general python float modulo: result has the sign of the divisor
        q = z3.ToInt(s.re() / o.re())
        return Num('r', e=s.re() - o.re() * z3.ToReal(q), ty=ty)

    def __rmod__(s, o):
        o = lift(o)
        return NotImplemented if o is NotImplemented else o.__mod__(s)

    def __divmod__(s, o):
        return (s.__floordiv__(o), s.__mod__(o))

    def __pow__(s, o, mod=None):
        c = o.cval() if isinstance(o, Num) else (Fr(o) if isinstance(o, int) else (frac_of_float(o) if isinstance(o, float) else None))
        if c is None:
            raise EngineError('symbolic exponent')
        if c.denominator == 1 and 0 <= c <= 12:
            k = int(c)
            fl = isinstance(o, float) or (isinstance(o, Num) and o.ty is float)
            r = Num.const(1.0 if fl else 1)
            for _ in range(k):
                r = r * s
            return r
        if c.denominator == 1 and -6 <= c < 0:
            return Num.const(1.0) / s.__pow__(int(-c))
        if c.denominator == 2:
            r = ssqrt(s)
            k = int(c * 2)
            if k < 0:
                return Num.const(1.0) / r.__pow__(-k)
            return r.__pow__(k)
        raise EngineError('unsupported exponent %s' % c)

    def __rpow__(s, o):
        raise EngineError('symbolic exponent')

    def __abs__(s):
        if s.k == 'q':
            c = s.cval()
            if c is not None:
                return s if c >= 0 else -s
            if s.iv is not None and s.iv[0] >= 0:
                return s
            return Num('q', z3.If(s.n >= 0, s.n, -s.n), s.d, ty=s.ty, iv=iv_abs(s.iv),
                       tree=_mk_tree1('abs', s) if s.ty is float else None)
        if s.ang is not None and CUR is not None:
            # keep the angle provenance when the sign is already decided by the path; otherwise no fork:
            # the absolute value is then a plain number (it is only ever compared, e.g. abs(deg) >= 360)
            if CUR._check(s.e < 0) == z3.unsat:
                return s
            if CUR._check(s.e > 0) == z3.unsat:
                return -s
        return Num('r', e=z3.If(s.e >= 0, s.e, -s.e), ty=s.ty)

    def __round__(s, nd=None):
        if nd is not None and not (isinstance(nd, int) and not isinstance(nd, bool)):
            if isinstance(nd, Num) and nd.cval() is not None and nd.cval().denominator == 1:
                nd = int(nd.cval())
            else:
                raise EngineError('symbolic ndigits')
        if nd is None or nd == 0:
            x = s
            scale = 1
        else:
            scale = Fr(10) ** nd
            x = s * Num.const(scale)
        if x.k == 'q' and x.d == 1:
            r = Num('q', x.n, 1, ty=int, iv=x.iv)
        elif x.k == 'q':
            if x.ty is float:
                _site('round', x)
            two_n = 2 * x.n + x.d
            fl = two_n / (2 * x.d)
            tie = (two_n % (2 * x.d)) == 0
            r = Num('q', z3.If(z3.And(tie, fl % 2 != 0), fl - 1, fl), 1, ty=int,
                    iv=iv_join(iv_floor(x.iv), iv_add(iv_floor(x.iv), (Fr(1), Fr(1)))))
        else:
            h = x.e + z3.RealVal('1/2')
            fl = z3.ToInt(h)
            tie = z3.ToReal(fl) == h
            r = Num('q', z3.If(z3.And(tie, fl % 2 != 0), fl - 1, fl), 1, ty=int)
        if CUR is not None:
            CUR.memo.setdefault('rounds', []).append((r.n, x))      # (rounded integer term, its argument)
        if nd is None:
            return r
        res = r * Num.const(Fr(1) / scale) if scale != 1 else r
        if s.ty is float:
            res = Num(res.k, res.n, res.d, res.e, ty=float, iv=res.iv)
        return res

    def __trunc__(s):
        return s.trunc()

    def __floor__(s):
        return s.floor()

    def __ceil__(s):
        return -((-s).floor())

    # -- comparisons
    def _cmp(s, o, op):
        o = lift(o)
        if o is NotImplemented:
            return NotImplemented
        if s.k == 'q' and o.k == 'q':
            if (s.ty is float or o.ty is float) and not (s.d == 1 and o.d == 1):
                _site('cmp' + op, s, o)
            D = _lcm(s.d, o.d)
            a, b = s.n * (D // s.d), o.n * (D // o.d)
        else:
            a, b = s.re(), o.re()
        if op == '<':
            e = a < b
        elif op == '<=':
            e = a <= b
        elif op == '>':
            e = a > b
        elif op == '>=':
            e = a >= b
        elif op == '==':
            e = a == b
        else:
            e = a != b
        return SBool(e)

    def __lt__(s, o):
        return s._cmp(o, '<')

    def __le__(s, o):
        return s._cmp(o, '<=')

    def __gt__(s, o):
        return s._cmp(o, '>')

    def __ge__(s, o):
        return s._cmp(o, '>=')

    def __eq__(s, o):
        r = s._cmp(o, '==')
        return SBool(z3.BoolVal(False)) if r is NotImplemented else r

    def __ne__(s, o):
        r = s._cmp(o, '!=')
        return SBool(z3.BoolVal(True)) if r is NotImplemented else r

    def __hash__(s):
        return hash(('symx.Num', (s.n if s.k == 'q' else s.e).get_id(), s.d))

    def __bool__(s):
        return CUR.decide((s.n != 0) if s.k == 'q' else (s.e != 0))

    def __index__(s):
        c = s.cval()
        if c is not None:
            if c.denominator != 1:
                raise TypeError('non-integer index')
            return int(c)
        if s.k != 'q' or s.d != 1:
            raise TypeError("'float' object cannot be interpreted as an integer")
        for _ in range(400):
            v = CUR.model_value(s.n)
            if CUR.decide(s.n == v):
                return v.as_long()
        raise Unwind()

    def __format__(s, spec):
        CUR.path.notes.append(('format', s, spec))
        return '<sym>'

    def __str__(s):
        return '<sym>'

    def __repr__(s):
        if s.k == 'q':
            return 'Num(q %s/%d %s)' % (z3.simplify(s.n), s.d, s.ty.__name__)
        return 'Num(r %s %s)' % (s.e, s.ty.__name__)

    def is_integer(s):
        if s.k == 'q':
            return SBool(s.n % s.d == 0) if s.d != 1 else True
        return SBool(z3.IsInt(s.e))


def lift(v):
    if isinstance(v, Num):
        return v
    if isinstance(v, (bool, int, float, Fr)):
        return Num.const(v)
    if isinstance(v, SBool):
        return Num('q', z3.If(v.e, 1, 0), 1, ty=int, iv=(Fr(0), Fr(1)))
    return NotImplemented


def is_sym(v):
    return isinstance(v, (Num, SBool))


def _div0_check(o):
    if CUR is None or not CUR.check_div0:
        return
    z = (o.n == 0) if o.k == 'q' else (o.e == 0)
    if CUR.decide(z, weak_true=True):
        raise ZeroDivisionError('float division by zero')


def ssqrt(x):
    x = lift(x)
    c = x.cval()
    if c is not None:
        if c < 0:
            raise ValueError('math domain error')
        r = Fr(math.isqrt(c.numerator * c.denominator), c.denominator)
        if r * r == c:
            return Num.const(r)
    if CUR.check_div0:
        neg = (x.n < 0) if x.k == 'q' else (x.e < 0)
        if CUR.decide(neg, weak_true=True):
            raise ValueError('math domain error')
    w = z3.Real(CUR.fresh_name('sqrt'))
    CUR.assume(z3.And(w >= 0, w * w == x.re()))
    return Num('r', e=w, ty=float)


# --------------------------------------------------------------------------- float-discretisation sites (for cut lemmas)

def _leaf(x):
    """register an integer-valued term as a leaf of FP operation trees; returns its key"""
    key = x.n.get_id()
    if CUR is not None:
        if key not in CUR.leaves:
            CUR.leaves[key] = (x.n, x.iv)
    return key


def _mk_tree(op, a, b):
    if CUR is None or not CUR.track_sites:
        return None
    ta, tb = a._tree(), b._tree()
    if ta is None or tb is None:
        return None
    return (op, ta, tb)


def _mk_tree1(op, a):
    if CUR is None or not CUR.track_sites:
        return None
    ta = a._tree()
    return None if ta is None else (op, ta)


def _caller_line():
    f = sys._getframe(2)
    while f is not None:
        fn = f.f_code.co_filename
        if '/pymeeus/' in fn and not fn.endswith('/base.py'):
            return '%s:%d' % (fn.split('/pymeeus/')[-1], f.f_lineno)
        f = f.f_back
    return '?'


def _site(kind, a, b=None):
    if CUR is None or not CUR.track_sites:
        return
    ta = a._tree()
    tb = b._tree() if b is not None else None
    if a.cval() is not None and (b is None or b.cval() is not None):
        return
    CUR.path.sites.append((kind, _caller_line(), ta, tb))


# --------------------------------------------------------------------------- replacements for builtins / math

class _M(type):
    def __instancecheck__(cls, obj):
        if isinstance(obj, Num):
            return obj.ty is cls._real
        fn = getattr(obj, '_symx_isinstance', None)
        if fn is not None:
            return fn(cls._real)
        return isinstance(obj, cls._real)


class s_int(int, metaclass=_M):
    _real = int

    def __new__(cls, x=0, *a):
        if isinstance(x, Num):
            return x.trunc()
        if isinstance(x, SBool):
            return lift(x)
        if type(x) in (int, float, str, bool):
            return int(x, *a)
        fn = getattr(x, '_symx_int', None)
        if fn is not None:
            return fn()
        m = getattr(type(x), '__int__', None)
        if m is not None and not isinstance(x, (int, float)):
            return m(x)
        return int(x, *a)


class s_float(float, metaclass=_M):
    _real = float

    def __new__(cls, x=0.0):
        if isinstance(x, Num):
            if x.ty is float:
                return x
            return Num(x.k, x.n, x.d, x.e, ty=float, iv=x.iv, tree=x._tree(), ang=x.ang)
        if type(x) in (int, float, str, bool):
            return float(x)
        fn = getattr(x, '_symx_float', None)
        if fn is not None:
            return fn()
        m = getattr(type(x), '__float__', None)
        if m is not None and not isinstance(x, (int, float)):
            return m(x)
        return float(x)


def _unmap(k):
    if k is s_int:
        return int
    if k is s_float:
        return float
    return k


def s_isinstance(x, t):
    ts = tuple(_unmap(k) for k in t) if isinstance(t, tuple) else (_unmap(t),)
    if isinstance(x, Num):
        return any((k is x.ty) or (k is object) for k in ts)
    if isinstance(x, SBool):
        return any(k in (bool, int, object) for k in ts)
    fn = getattr(x, '_symx_isinstance', None)
    if fn is not None:
        return any(fn(k) for k in ts)
    return isinstance(x, ts)


def s_floor(x):
    if isinstance(x, Num):
        return x.floor()
    fn = getattr(x, '_symx_floor', None)
    if fn is not None:
        return fn()
    return math.floor(x)


def s_sqrt(x):
    if isinstance(x, Num):
        return ssqrt(x)
    fn = getattr(x, '_symx_sqrt', None)
    if fn is not None:
        return fn()
    return math.sqrt(x)


def s_fsum(seq):
    r = 0.0
    for v in seq:
        r = r + v
    return r


def s_copysign(x, y):
    if not is_sym(x) and not is_sym(y):
        return math.copysign(x, y)
    x = lift(x)
    y = lift(y)
    ax = abs(x)
    # sign of y ( +0.0 counts as positive; -0.0 not modelled )
    return ax if (y >= 0) else -ax


def s_fabs(x):
    return abs(x) if is_sym(x) else math.fabs(x)


def _trig(name):
    def f(*a):
        if any(isinstance(v, Num) for v in a):
            from . import trig
            return getattr(trig, 't_' + name)(*a)
        for v in a:
            fn = getattr(v, '_symx_math', None)
            if fn is not None:
                return fn(name, *a)
        return getattr(math, name)(*a)
    f.__name__ = name
    return f


MATH = {'floor': s_floor, 'sqrt': s_sqrt, 'fsum': s_fsum, 'copysign': s_copysign, 'fabs': s_fabs}
for _n in ('sin', 'cos', 'tan', 'asin', 'acos', 'atan', 'atan2', 'radians', 'degrees', 'log10'):
    MATH[_n] = _trig(_n)

BUILTINS = {'int': s_int, 'float': s_float, 'isinstance': s_isinstance}
