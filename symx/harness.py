"""symx.harness -- bookkeeping shared by the per-property checks: obligations, evidence,
parallel map, replay of counterexamples on the real library, known findings."""
import os
import sys
import json
import time
import subprocess
import multiprocessing
import traceback
import fractions

import z3

from . import core, loader

VERIF = os.path.dirname(os.path.dirname(os.path.abspath(__file__)))
EVDIR = os.environ.get('SYMX_EVIDENCE_DIR') or os.path.join(VERIF, 'evidence')
REPO = os.environ.get('SYMX_REPO', '/repo')
REAL_PY = '/venv/bin/python'
Fr = fractions.Fraction


def jsonable(v):
    if isinstance(v, (str, int, bool)) or v is None:
        return v
    if isinstance(v, float):
        return v if v == v and abs(v) != float('inf') else repr(v)
    if isinstance(v, Fr):
        return str(v)
    if isinstance(v, dict):
        return {str(k): jsonable(x) for k, x in v.items()}
    if isinstance(v, (list, tuple, set)):
        return [jsonable(x) for x in v]
    return str(v)


def model_dict(model, limit=40):
    """z3 model -> {name: python value}"""
    out = {}
    if model is None:
        return out
    for dcl in model.decls():
        if len(out) >= limit:
            break
        v = model[dcl]
        out[dcl.name()] = zval(v)
    return out


def zval(v):
    if z3.is_int_value(v):
        return v.as_long()
    if z3.is_rational_value(v):
        return Fr(v.numerator_as_long(), v.denominator_as_long())
    if z3.is_algebraic_value(v):
        a = v.approx(30)
        return Fr(a.numerator_as_long(), a.denominator_as_long())
    if z3.is_true(v):
        return True
    if z3.is_false(v):
        return False
    if z3.is_fp(v) or z3.is_fprm(v):
        return str(v)
    if z3.is_bv_value(v):
        return v.as_long()
    return str(v)


def meval(model, expr):
    """evaluate an Int/Real term (or Num) in a model -> python int / Fraction"""
    if isinstance(expr, core.Num):
        if expr.k == 'q':
            n = zval(model.eval(expr.n, model_completion=True))
            f = Fr(n, expr.d)
            return int(f) if expr.ty is int and f.denominator == 1 else f
        return zval(model.eval(expr.e, model_completion=True))
    if isinstance(expr, core.SBool):
        return zval(model.eval(expr.e, model_completion=True))
    if isinstance(expr, (int, float, str, bool)) or expr is None:
        return expr
    return zval(model.eval(expr, model_completion=True))


class Task(object):
    """result container a worker fills and returns (must stay picklable)"""

    def __init__(self, name):
        self.name = name
        self.obl = []          # dicts: name, result, secs, bound
        self.cands = []        # candidate violations: site, inputs, what
        self.paths = 0
        self.decisions = 0
        self.nq = 0
        self.solver_s = 0.0
        self.samples = []
        self.notes = []
        self.unwind = 0
        self.reach = 0         # distinct (path, assertion) pairs with a sat reachability witness
        self.sites = []
        self.error = None
        self.t0 = time.time()

    def absorb_ctx(self, ctx, paths):
        self.paths += len(paths)
        self.decisions += sum(p.decisions for p in paths)
        self.unwind += sum(1 for p in paths if p.kind == 'unwind')
        self.nq += ctx.nq
        self.solver_s += ctx.t_solver
        if ctx.unknown_feas:
            self.notes.append('%s: %d branch feasibility queries answered unknown (both sides explored)' % (self.name, ctx.unknown_feas))
        if ctx.div0_unknown:
            self.notes.append('%s: %d implicit error branches (zero divisor / sqrt domain) undecided, assumed unreachable' % (self.name, ctx.div0_unknown))
        ctx.nq = 0
        ctx.t_solver = 0.0
        ctx.unknown_feas = 0
        ctx.div0_unknown = 0

    def ob(self, name, result, secs=0.0, bound='', n=1):
        self.obl.append({'name': name, 'result': result, 'secs': round(secs, 3), 'bound': bound, 'n': n})

    def cand(self, site, inputs, what):
        self.cands.append({'site': site, 'inputs': jsonable(inputs), 'what': what})

    def decide(self, ctx, path, name, bad, site=None, inputs=None, what='', bound='', timeout_ms=None, extra=(), use_pc=True, retry=True):
        """discharge one obligation on one path; `inputs(model)` turns a model into replay inputs"""
        budget = float(os.environ.get('SYMX_TASK_BUDGET_S', '0') or 0)
        if budget and time.time() - self.t0 > budget:
            self.ob(name, 'budget-exhausted', 0.0, bound)      # inconclusive: never counted as held
            return 'unknown', None
        r, m, dt = core.check(ctx, path, bad, timeout_ms=timeout_ms, extra=extra, use_pc=use_pc)
        if r == 'unknown' and not use_pc:
            r, m, dt2 = core.check(ctx, path, bad, timeout_ms=timeout_ms, extra=extra, use_pc=True)
            dt += dt2
        if r == 'unknown' and retry:
            # one retry with a much larger budget before the obligation is reported inconclusive
            r, m, dt2 = core.check(ctx, path, bad, timeout_ms=8 * (timeout_ms or ctx.timeout_ms), extra=extra)
            dt += dt2
        self.ob(name, r, dt, bound)
        if r == 'sat':
            inp = inputs(m) if inputs is not None else model_dict(m)
            self.cand(site or name, inp, what or name)
        return r, m


def pmap(fn, items, procs=None):
    """run fn(item) -> Task for every item in a fork pool; worker crashes become Task.error"""
    procs = procs or int(os.environ.get('SYMX_PROCS', '16'))
    items = list(items)
    if procs <= 1 or len(items) <= 1:
        return [_guard(fn, it) for it in items]
    ctxm = multiprocessing.get_context('fork')
    with ctxm.Pool(min(procs, len(items))) as pool:
        return pool.starmap(_guard, [(fn, it) for it in items], chunksize=1)


def _guard(fn, it):
    try:
        t = fn(it)
        t.wall = time.time() - t.t0
        return t
    except BaseException as e:        # noqa: engine errors are BaseException on purpose
        t = Task(str(it))
        t.error = '%s: %s\n%s' % (type(e).__name__, e, traceback.format_exc()[-1500:])
        t.wall = 0
        return t


# --------------------------------------------------------------------------- known findings

def load_known():
    fn = os.path.join(VERIF, 'known_findings.json')
    if not os.path.exists(fn):
        return []
    return json.load(open(fn)).get('findings', [])


def match_known(pid, cand, known):
    for k in known:
        if k.get('property') != pid or k.get('status') != 'known':
            continue
        if k.get('site') != cand['site']:
            continue
        when = k.get('when')
        if when:
            try:
                if not eval(when, {'__builtins__': {'abs': abs, 'int': int, 'float': float, 'min': min, 'max': max, 'Fraction': Fr}}, dict(cand['inputs'])):
                    continue
            except Exception:
                continue
        return k
    return None


# --------------------------------------------------------------------------- replay

REPLAY_HEAD = '''#!/venv/bin/python
# Stand-alone replay of a solver counterexample against the real library (no symx involved).
# exit 1 + "REPRODUCED" : the property fails on the real code for these inputs
# exit 0                : it does not (the model/encoding was too coarse)
import sys, json, math, os
sys.path.insert(0, os.environ.get('SYMX_REPO', %(repo)r))
from fractions import Fraction
INPUTS = json.loads(%(inputs)r)
SITE = %(site)r
def F(x):
    """inputs are exact rationals written as 'p/q' strings, ints, or floats"""
    if isinstance(x, str):
        return float(Fraction(x))
    return x
'''


def write_replay(pid, idx, site, inputs, body):
    d = os.path.join(EVDIR, 'replay')
    os.makedirs(d, exist_ok=True)
    fn = os.path.join(d, '%s-%d.py' % (pid, idx))
    with open(fn, 'w') as f:
        f.write(REPLAY_HEAD % {'repo': REPO, 'inputs': json.dumps(inputs), 'site': site})
        f.write(body)
        f.write('\n')
    return fn


def run_replay(fn, timeout=120):
    env = dict(os.environ)
    env.pop('PYTHONPATH', None)
    try:
        p = subprocess.run([REAL_PY, fn], capture_output=True, text=True, timeout=timeout, env=env)
    except subprocess.TimeoutExpired:
        return 2, 'replay timed out'
    return p.returncode, (p.stdout + p.stderr)[-2000:]


# --------------------------------------------------------------------------- differential validation of the executor

DIFF_REAL = '''
import sys, json, math
sys.path.insert(0, %(repo)r)
from pymeeus.Angle import Angle
from pymeeus.Epoch import Epoch, JDE2000
import pymeeus.Coordinates as Coordinates
from pymeeus.Interpolation import Interpolation
from pymeeus.CurveFitting import CurveFitting
from pymeeus.Earth import Earth, IAU76, WGS84, Ellipsoid
def flat(v):
    if isinstance(v, (list, tuple)):
        r = []
        for x in v: r.extend(flat(x))
        return r
    if isinstance(v, (Angle, Epoch)): return [float(v)]
    if isinstance(v, bool): return [int(v)]
    return [float(v)]
out = []
for src, args in json.loads(%(cases)r):
    try:
        out.append(flat(eval(src)(*args)))
    except Exception as e:
        out.append('EXC:' + type(e).__name__)
print(json.dumps(out))
'''


def diffval(cases, ns, tol=1e-9, ctx_kw=None):
    """cases: [(lambda-source, [args])].  The lambda is evaluated on the real library (subprocess) and on
    the instrumented modules with every numeric argument lifted to a *symbolic constant*; returns
    (n_agree, [disagreements])."""
    p = subprocess.run([REAL_PY, '-c', DIFF_REAL % {'repo': REPO, 'cases': json.dumps(cases)}],
                       capture_output=True, text=True, timeout=300)
    if p.returncode != 0:
        raise core.EngineError('differential validation: real side failed: ' + p.stderr[-800:])
    real = json.loads(p.stdout.strip().splitlines()[-1])
    bad = []
    ok = 0
    for (src, args), ref in zip(cases, real):
        def lift_arg(a):
            if isinstance(a, (int, float)) and not isinstance(a, bool):
                return core.Num.const(a)
            if isinstance(a, list):
                return [lift_arg(x) for x in a]
            return a

        def fn():
            return eval(src, dict(ns))(*[lift_arg(a) for a in args])
        try:
            ctx, paths = core.explore(fn, [], **(ctx_kw or {}))
        except core.EngineError as e:
            bad.append((src, args, 'engine: %s' % e))
            continue
        if len(paths) != 1:
            bad.append((src, args, 'expected 1 path on constants, got %d' % len(paths)))
            continue
        pth = paths[0]
        if pth.kind == 'exc':
            mine = 'EXC:' + type(pth.exc).__name__
        elif pth.kind != 'ok':
            mine = pth.kind
        else:
            mine = _flat_sym(pth.val, ctx, pth)
        if isinstance(ref, str) or isinstance(mine, str):
            if ref != mine:
                bad.append((src, args, 'real=%r symx=%r' % (ref, mine)))
            else:
                ok += 1
            continue
        if len(ref) != len(mine) or any(abs(a - b) > tol * max(1.0, abs(a)) for a, b in zip(ref, mine)):
            bad.append((src, args, 'real=%r symx=%r' % (ref, mine)))
        else:
            ok += 1
    return ok, bad


def _flat_sym(v, ctx, path):
    if isinstance(v, (list, tuple)):
        r = []
        for x in v:
            r.extend(_flat_sym(x, ctx, path))
        return r
    if hasattr(v, '_deg'):
        v = v._deg
    elif hasattr(v, '_jde'):
        v = v._jde
    if isinstance(v, core.SBool):
        v = core.lift(v)
    if isinstance(v, core.Num):
        c = v.cval()
        if c is None:
            # value defined through fresh variables (sqrt, atoms): read it from a model
            s = z3.Solver()
            for c_ in path.conds():
                s.add(c_)
            if s.check() != z3.sat:
                raise core.EngineError('no model for pinned run')
            c = meval(s.model(), v)
        return [float(c)]
    if isinstance(v, bool):
        return [int(v)]
    return [float(v)]


# --------------------------------------------------------------------------- the check driver

class Check(object):
    def __init__(self, pid, tier, title=''):
        self.pid = pid
        self.tier = tier
        self.title = title
        self.seed = int(os.environ.get('VERIF_SEED', '0') or 0)
        self.t0 = time.time()
        self.tasks = []
        self.assumptions = []
        self.functions = []
        self.bounds = {}
        self.stubs = []
        self.outside = []
        self.diff_ok = 0
        self.diff_bad = []
        self.replays = {}       # site -> python source of the replay body
        self.violations = 0
        self.known_hits = []
        self.inconclusive = []
        self.extra = {}

    def log(self, *a):
        print('[%s %6.1fs]' % (self.pid, time.time() - self.t0), *a, flush=True)

    def add_tasks(self, tasks):
        for t in tasks:
            self.tasks.append(t)
            if t.error:
                self.inconclusive.append('task %s crashed: %s' % (t.name, t.error))

    def run(self, fn, items, label=''):
        t0 = time.time()
        ts = pmap(fn, items)
        self.add_tasks(ts)
        obl = sum(len(t.obl) for t in ts)
        self.log('%s: %d tasks, %d paths, %d obligations, %d candidates, %.1fs' % (
            label or getattr(fn, '__name__', 'tasks'), len(ts), sum(t.paths for t in ts), obl,
            sum(len(t.cands) for t in ts), time.time() - t0))
        return ts

    def diff(self, cases, ns, tol=1e-9, ctx_kw=None):
        ok, bad = diffval(cases, ns, tol, ctx_kw)
        self.diff_ok += ok
        for b in bad:
            self.diff_bad.append(b)
            self.inconclusive.append('executor disagrees with the real library on %s%s: %s' % b)
        self.log('differential validation: %d agree, %d disagree' % (ok, len(bad)))

    def finish(self):
        known = load_known()
        all_obl = [o for t in self.tasks for o in t.obl]
        cands = [c for t in self.tasks for c in t.cands]
        res_count = {}
        for o in all_obl:
            res_count[o['result']] = res_count.get(o['result'], 0) + o.get('n', 1)
        # ---- candidates: replay on the real library before anything is reported
        seen = set()
        idx = 0
        lines = []
        for c in cands:
            key = (c['site'], json.dumps(c['inputs'], sort_keys=True))
            if key in seen:
                continue
            seen.add(key)
            body = self.replays.get(c['site'])
            if body is None:
                self.inconclusive.append('candidate at %s has no replay predicate: %s' % (c['site'], c['inputs']))
                continue
            idx += 1
            fn = write_replay(self.pid, idx, c['site'], c['inputs'], body)
            rc, out = run_replay(fn)
            self.log('candidate %s %s (%s): replay rc=%s' % (c['site'], c['inputs'], c['what'][:120], rc))
            if rc == 1 and 'REPRODUCED' in out:
                k = match_known(self.pid, c, known)
                if k is not None:
                    self.known_hits.append((k, c))
                    lines.append('KNOWN-FINDING: property=%s %s' % (self.pid, k.get('what', c['what'])))
                else:
                    self.violations += 1
                    lines.append('VIOLATION property=%s replay=%s' % (self.pid, fn))
                    self.log('violation at %s: %s  inputs=%s\n%s' % (c['site'], c['what'], c['inputs'], out.strip()[-600:]))
            else:
                self.inconclusive.append('candidate at %s did not reproduce on the real library (rc=%s): %s :: %s' % (
                    c['site'], rc, c['inputs'], out.strip()[-300:]))
        n_sat = sum(o.get('n', 1) for o in all_obl if o['result'] == 'sat')
        if n_sat > len(cands):
            self.inconclusive.append('%d obligation(s) failed (sat) without a replayable candidate: %s' % (
                n_sat - len(cands), [o['name'] for o in all_obl if o['result'] == 'sat'][:5]))
        unknowns = [o for o in all_obl if o['result'] not in ('unsat', 'sat', 'ok', 'skipped')]
        for o in unknowns:
            self.inconclusive.append('obligation %s: %s (%s)' % (o['name'], o['result'], o['bound']))
        unwind = sum(t.unwind for t in self.tasks)
        # ---- evidence
        paths = sum(t.paths for t in self.tasks)
        decisions = sum(t.decisions for t in self.tasks)
        nq = sum(t.nq for t in self.tasks) + len(all_obl)
        samples = []
        for t in self.tasks:
            samples.extend(t.samples[:3])
        samples = samples[:12] or [{'note': 'no path produced a sample'}]
        notes = []
        for t in self.tasks:
            notes.extend(t.notes)
        by_name = {}
        for o in all_obl:
            nm = o['name'].split('@')[0]
            e = by_name.setdefault(nm, {'n': 0, 'unsat': 0, 'sat': 0, 'other': 0, 'secs': 0.0, 'bound': o['bound']})
            e['n'] += o.get('n', 1)
            e['secs'] = round(e['secs'] + o['secs'], 2)
            e['unsat' if o['result'] in ('unsat', 'ok') else ('sat' if o['result'] == 'sat' else 'other')] += o.get('n', 1)
        ev = {
            'property_id': self.pid,
            'tier': self.tier,
            'seed': self.seed,
            'level': 'model_checking',
            'wall_s': round(time.time() - self.t0, 2),
            'violations': self.violations,
            'assumptions': self.assumptions + sorted(set(notes)),
            'coverage': {
                'states': max(paths, 1),
                'transitions': max(decisions, 1),
                'traces_validated_against_impl': self.diff_ok,
                'evaluations': max(nq, 1),
                'distinct_nontrivial': sum(t.reach for t in self.tasks),
                'rule': 'state = one explored path of the real code (satisfiable path condition, witness kept); '
                        'transition = one symbolic branch decision; evaluation = one solver query; '
                        'distinct_nontrivial = distinct (path, assertion) pairs whose path condition is satisfiable '
                        '(the reachability twin of the assertion came back sat)',
                'samples': jsonable(samples),
                'exhaustive': False,
                'functions_encoded': self.functions,
                'source_hashes': dict(loader.HASHES),
                'bounds': self.bounds,
                'stubs_and_summaries': self.stubs,
                'outside_the_claim': self.outside,
                'obligations': sum(o.get('n', 1) for o in all_obl),
                'discharged': sum(o.get('n', 1) for o in all_obl if o['result'] in ('unsat', 'ok')),
                'obligation_table': by_name,
                'solver_results': res_count,
                'solver_time_s': round(sum(t.solver_s for t in self.tasks) + sum(o['secs'] for o in all_obl), 2),
                'unwinding_misses': unwind,
                'candidates_replayed': idx,
                'known_findings_hit': [k.get('id') for k, _ in self.known_hits],
                'inconclusive': self.inconclusive[:50],
                'solver': 'z3 %s' % z3.get_version_string(),
            },
        }
        ev['coverage'].update(self.extra)
        os.makedirs(EVDIR, exist_ok=True)
        with open(os.path.join(EVDIR, self.pid + '.json'), 'w') as f:
            json.dump(ev, f, indent=1, default=str)
        for ln in lines:
            print(ln, flush=True)
        if unwind:
            self.log('unwinding misses: %d paths wanted more iterations than the bound; the claim is restricted to the bound' % unwind)
        self.log('obligations: %s ; paths %d ; queries %d ; wall %.1fs' % (res_count, paths, nq, time.time() - self.t0))
        if self.violations:
            return 1
        if self.inconclusive:
            for m in self.inconclusive[:20]:
                print('INCONCLUSIVE %s: %s' % (self.pid, m), flush=True)
            return 2
        print('HELD property=%s tier=%s (within the bounds recorded in evidence/%s.json)' % (self.pid, self.tier, self.pid), flush=True)
        return 0
