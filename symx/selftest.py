"""setup/self test: nothing to build; checks the tooling is present and the loader works."""
import sys
import z3
from symx import core, loader


def main():
    print('python', sys.version.split()[0], 'z3', z3.get_version_string())
    loader.install()
    Epoch = loader.mod('Epoch').Epoch
    y = core.Num.int_var('y')

    def fn():
        return Epoch(y, 3, 1).jde()
    ctx, paths = core.explore(fn, [y.n >= 1900, y.n <= 2100])
    assert paths and all(p.kind == 'ok' for p in paths), paths
    r, m, dt = core.check(ctx, paths[0], core.lift(paths[0].val).n < 0)
    assert r == 'unsat', r
    print('symx selftest ok: %d paths' % len(paths))


if __name__ == '__main__':
    main()
