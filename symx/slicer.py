"""symx.slicer -- run a *part* of a real function: the statements after a marker statement (or a loop body),
cut out of the function's AST as it is in /repo now and compiled in the instrumented module namespace.
Used where a verified head of a function is replaced by its summary (assume/guarantee composition)."""
import ast
import os

from . import core, loader


def _find_func(tree, qualname):
    node = tree
    for part in qualname.split('.'):
        for ch in node.body:
            if isinstance(ch, (ast.FunctionDef, ast.ClassDef)) and ch.name == part:
                node = ch
                break
        else:
            raise core.EngineError('slicer: %s not found' % qualname)
    return node


def _find_marker(f, marker):
    """index of the LAST top-level statement of f matching `marker`: a source string (compared after ast
    normalisation) or an ast node class such as ast.For"""
    idx = None
    if isinstance(marker, str):
        want = ast.unparse(ast.parse(marker).body[0])
        for i, st in enumerate(f.body):
            if ast.unparse(st) == want:
                idx = i
    else:
        for i, st in enumerate(f.body):
            if isinstance(st, marker):
                idx = i
    return idx


def _source(modname):
    fn = os.path.join(loader.ROOT, 'pymeeus', modname + '.py')
    src = open(fn, encoding='utf-8').read()
    for (m, old, new) in loader.PATCHES:
        if m == modname:
            src = src.replace(old, new)
    return src, fn


def tail_after(modname, qualname, marker, params, name='_sliced'):
    """function(params...) whose body is the statements of `qualname` that follow the LAST top-level statement
    whose source is `marker` (compared after ast normalisation)."""
    src, fn = _source(modname)
    tree = ast.parse(src)
    f = _find_func(tree, qualname)
    idx = _find_marker(f, marker)
    if idx is None:
        raise core.EngineError('slicer: marker %r not found in %s.%s (the function was restructured)' % (marker, modname, qualname))
    body = f.body[idx + 1:]
    args = ast.parse('def %s(%s): pass' % (name, params)).body[0].args
    new = ast.FunctionDef(name=name, args=args, body=body, decorator_list=[], returns=None, type_comment=None)
    mod = ast.Module(body=[new], type_ignores=[])
    ast.fix_missing_locations(mod)
    ns = loader.mod(modname).__dict__
    loc = {}
    exec(compile(mod, fn, 'exec'), ns, loc)
    return loc[name], ast.unparse(mod)


def head_until(modname, qualname, marker, params, ret, name='_sliced_head', before=False):
    """function(params...) running the statements of `qualname` up to and including the LAST statement equal to
    `marker` (before=True: up to but excluding it), then returning `ret` (an expression over the function's locals)."""
    src, fn = _source(modname)
    tree = ast.parse(src)
    f = _find_func(tree, qualname)
    idx = _find_marker(f, marker)
    if idx is None:
        raise core.EngineError('slicer: marker %r not found in %s.%s' % (marker, modname, qualname))
    if before:
        idx -= 1
    body = [st for st in f.body[:idx + 1]
            if not (isinstance(st, ast.Expr) and isinstance(getattr(st, 'value', None), ast.Constant) and isinstance(st.value.value, str))]
    body.append(ast.parse('return ' + ret).body[0])
    args = ast.parse('def %s(%s): pass' % (name, params)).body[0].args
    new = ast.FunctionDef(name=name, args=args, body=body, decorator_list=[], returns=None, type_comment=None)
    mod = ast.Module(body=[new], type_ignores=[])
    ast.fix_missing_locations(mod)
    ns = loader.mod(modname).__dict__
    loc = {}
    exec(compile(mod, fn, 'exec'), ns, loc)
    return loc[name], ast.unparse(mod)


def loop_body(modname, qualname, params, ret, name='_sliced_body', which=0):
    """function(params...) executing ONE iteration of the `which`-th while loop found in `qualname` (its body as
    it is in the current source), then returning `ret`.  Also returns the loop test's source for the harness."""
    src, fn = _source(modname)
    tree = ast.parse(src)
    f = _find_func(tree, qualname)
    loops = [n for n in ast.walk(f) if isinstance(n, ast.While)]
    loops.sort(key=lambda n: n.lineno)
    if len(loops) <= which:
        raise core.EngineError('slicer: no while loop #%d in %s.%s' % (which, modname, qualname))
    w = loops[which]
    body = list(w.body) + [ast.parse('return ' + ret).body[0]]
    args = ast.parse('def %s(%s): pass' % (name, params)).body[0].args
    new = ast.FunctionDef(name=name, args=args, body=body, decorator_list=[], returns=None, type_comment=None)
    mod = ast.Module(body=[new], type_ignores=[])
    ast.fix_missing_locations(mod)
    ns = loader.mod(modname).__dict__
    loc = {}
    exec(compile(mod, fn, 'exec'), ns, loc)
    return loc[name], ast.unparse(w.test), ast.unparse(mod)


def nested_func(modname, qualname, name=None):
    """the (possibly nested) function `qualname` (dotted path through classes / enclosing functions) as it is in the
    current source, compiled on its own in the instrumented module namespace (it must not use enclosing locals)"""
    src, fn = _source(modname)
    tree = ast.parse(src)
    f = _find_func(tree, qualname)
    new = ast.FunctionDef(name=name or f.name, args=f.args, body=f.body, decorator_list=[], returns=None, type_comment=None)
    mod = ast.Module(body=[new], type_ignores=[])
    ast.fix_missing_locations(mod)
    ns = loader.mod(modname).__dict__
    loc = {}
    exec(compile(mod, fn, 'exec'), ns, loc)
    return loc[new.name], ast.unparse(mod)
