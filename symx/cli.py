import sys
import os
import argparse
import importlib
import traceback


def main():
    ap = argparse.ArgumentParser()
    ap.add_argument('pid')
    ap.add_argument('--tier', default=os.environ.get('VERIF_TIER', 'quick'), choices=['quick', 'thorough'])
    a = ap.parse_args()
    sys.setrecursionlimit(20000)
    try:
        mod = importlib.import_module('props.' + a.pid)
        rc = mod.main(a.tier)
    except SystemExit:
        raise
    except BaseException as e:
        traceback.print_exc()
        print('INCONCLUSIVE %s: harness error %s: %s' % (a.pid, type(e).__name__, e))
        rc = 2
    sys.exit(rc)


if __name__ == '__main__':
    main()
