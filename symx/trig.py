"""symx.trig -- trigonometry over symbolic numbers.

Ctx.trig selects the treatment:
  'atoms'    mode T: every angle is kept in the normal form  sum_i q_i*theta_i + off  (q_i rational, off a rational
             number of degrees); each atom theta owns reals (c, s) with c^2 + s^2 = 1; sin/cos expand by the addition
             theorems; inverse functions create atoms whose (c, s) are tied to their argument by polynomial axioms.
  'box'      mode B: sin/cos return a fresh real in [-1, 1] (same argument term -> same variable).
  'concrete' arguments must be constants; evaluated with libm (differential validation runs only).
Internally every angle's numeric value is kept in DEGREES; radians(x) multiplies by the rational value of the
double math.pi / 180, so unit changes stay linear.
"""
import math
import fractions
import z3

from . import core
from .core import Num, Fr, EngineError

PI_D = Fr(repr(math.pi))           # pi as the library's literal enters exact arithmetic everywhere: the decimal 3.141592653589793
RAD = PI_D / 180                   # radians per degree, as the library computes it (math.radians: x * (pi/180))


class Ang(object):
    __slots__ = ('lin', 'off', 'unit')

    def __init__(self, lin, off, unit):
        self.lin = lin          # {atom id: Fraction}
        self.off = off          # Fraction, degrees
        self.unit = unit        # 'deg' | 'rad'  (what the numeric value of the carrier Num is measured in)

    def copy(self):
        return Ang(dict(self.lin), self.off, self.unit)


def _ctx():
    c = core.CUR
    if c is None:
        raise EngineError('symbolic trig outside an exploration')
    return c


def _const_deg(x, unit):
    c = x.cval()
    if c is None:
        return None
    return c if unit == 'deg' else c / RAD


def ang_add(s, o):
    a, b = s.ang, o.ang
    if a is not None and b is not None:
        if a.unit != b.unit:
            return None
        lin = dict(a.lin)
        for k, v in b.lin.items():
            lin[k] = lin.get(k, Fr(0)) + v
            if lin[k] == 0:
                del lin[k]
        return Ang(lin, a.off + b.off, a.unit)
    if a is None:
        a, o = b, s
    c = _const_deg(o, a.unit)
    if c is None:
        return None
    return Ang(dict(a.lin), a.off + c, a.unit)


def ang_scale(a, c):
    if c == 0:
        return None
    return Ang({k: v * c for k, v in a.lin.items()}, a.off * c, a.unit)


def ang_mul(s, o):
    if s.ang is not None and o.ang is None:
        c = o.cval()
        return None if c is None else ang_scale(s.ang, c)
    if o.ang is not None and s.ang is None:
        c = s.cval()
        return None if c is None else ang_scale(o.ang, c)
    return None


def ang_mod(s, c):
    a = s.ang
    turn = Fr(360) if a.unit == 'deg' else 2 * PI_D
    if c == turn:
        return a.copy()
    return None


# --------------------------------------------------------------------------- atoms

def _bounds_sincos(deg):
    """rational enclosures (lo, hi) of cos and sin of a rational number of degrees in [0, 90]"""
    x = deg * Fr(884279719003555, 281474976710656) / 180      # radians (pi_d is within 1.3e-16 of pi)
    # Taylor with 12 terms; remainder + pi error far below 1e-14 for |x| <= pi/2
    def series(x, start):
        t = Fr(1) if start == 0 else x
        r = Fr(0)
        n = start
        for _ in range(14):
            r += t
            t = -t * x * x / ((n + 1) * (n + 2))
            n += 2
        return r
    c, s = series(x, 0), series(x, 1)
    eps = Fr(1, 10 ** 13)
    return (c - eps, c + eps), (s - eps, s + eps)


def new_atom(ctx, key, c=None, s=None, v=None, facts=()):
    if key in ctx.atoms:
        return ctx.atoms[key]
    nm = 'a%d' % (len(ctx.atoms) + 1) if not isinstance(key, str) else key
    at = {'c': c if c is not None else z3.Real('c_' + nm), 's': s if s is not None else z3.Real('s_' + nm),
          'v': v if v is not None else z3.Real('v_' + nm), 'key': key}
    ctx.atoms[key] = at
    if c is None or s is None:
        ctx.assume(at['c'] * at['c'] + at['s'] * at['s'] == 1)
    for f in facts:
        ctx.assume(f(at))
    return at


def const_atom(ctx, rho):
    """atom for a constant angle rho in (0, 90) degrees"""
    key = ('const', rho)
    if key in ctx.atoms:
        return ctx.atoms[key]
    (clo, chi), (slo, shi) = _bounds_sincos(rho)
    nm = 'k%s_%s' % (rho.numerator, rho.denominator)
    c, s = z3.Real('c_' + nm), z3.Real('s_' + nm)
    at = {'c': c, 's': s, 'v': z3.RealVal(str(rho)), 'key': key}
    ctx.atoms[key] = at
    ctx.assume(z3.And(c * c + s * s == 1, c > z3.RealVal(str(clo)), c < z3.RealVal(str(chi)),
                      s > z3.RealVal(str(slo)), s < z3.RealVal(str(shi))))
    if rho == 30:
        ctx.assume(s == z3.RealVal('1/2'))
    elif rho == 60:
        ctx.assume(c == z3.RealVal('1/2'))
    elif rho == 45:
        ctx.assume(c == s)
    return at


def sub_atom(ctx, key, r):
    """atom for theta/r; ties theta's (c, s) to it by the multiple-angle formulas"""
    k2 = ('sub', key, r)
    if k2 in ctx.atoms:
        return ctx.atoms[k2]
    base = ctx.atoms[key]
    nm = 'h%d_%d' % (len(ctx.atoms) + 1, r)
    at = {'c': z3.Real('c_' + nm), 's': z3.Real('s_' + nm), 'v': base['v'] / r, 'key': k2}
    ctx.atoms[k2] = at
    cr, sr = _multiple(at['c'], at['s'], r)
    ctx.assume(z3.And(at['c'] * at['c'] + at['s'] * at['s'] == 1, cr == base['c'], sr == base['s']))
    # sign facts for the half angle when the base angle's principal range is known
    rng = base.get('range')
    if rng is not None and r == 2:
        lo, hi = rng
        if lo >= -180 and hi <= 180:
            ctx.assume(at['c'] >= 0)          # theta/2 in [-90, 90]
        elif lo >= 0 and hi <= 360:
            ctx.assume(at['s'] >= 0)          # theta/2 in [0, 180]
    return at


def _multiple(c, s, n):
    """(cos n*theta, sin n*theta) as polynomials in (c, s);  n integer (may be negative)"""
    if n < 0:
        cn, sn = _multiple(c, s, -n)
        return cn, -sn
    cn, sn = z3.RealVal(1), z3.RealVal(0)
    for _ in range(n):
        cn, sn = cn * c - sn * s, sn * c + cn * s
    return cn, sn


def cos_sin(x):
    """(cos, sin) of an angle-provenanced Num (or a constant) as z3 Real polynomial terms"""
    ctx = _ctx()
    x = core.lift(x)
    if x.ang is None:
        c = x.cval()
        if c is None:
            raise EngineError('cos_sin of a value without angle provenance')
        x = Num(x.k, x.n, x.d, x.e, ty=x.ty)
        x.ang = Ang({}, c, 'deg')
    a = x.ang
    C, S = z3.RealVal(1), z3.RealVal(0)
    for key, q in a.lin.items():
        if q == 0:
            continue
        r = q.denominator
        at = ctx.atoms[key] if r == 1 else sub_atom(ctx, key, r)
        cn, sn = _multiple(at['c'], at['s'], q.numerator)
        C, S = C * cn - S * sn, S * cn + C * sn
    off = a.off % 360
    qt = int(off // 90)
    rho = off - 90 * qt
    if rho != 0:
        at = const_atom(ctx, rho)
        C, S = C * at['c'] - S * at['s'], S * at['c'] + C * at['s']
    for _ in range(qt):
        C, S = -S, C
    return z3.simplify(C), z3.simplify(S)


def direction(x):
    """(Dx, Dy): a vector along (cos x, sin x) up to a POSITIVE scale, division- and root-free where possible:
    for an angle that is +-atan2(Y, X) plus a constant the arguments of atan2 are used directly."""
    ctx = _ctx()
    x = core.lift(x)
    a = x.ang
    if a is None:
        return cos_sin(x)
    items = [(k, q) for k, q in a.lin.items() if q != 0]
    if len(items) == 1 and abs(items[0][1]) == 1 and 'X' in ctx.atoms[items[0][0]]:
        at = ctx.atoms[items[0][0]]
        Dx, Dy = at['X'], at['Y'] if items[0][1] > 0 else -at['Y']
        off = a.off % 360
        qt = int(off // 90)
        rho = off - 90 * qt
        if rho != 0:
            k = const_atom(ctx, rho)
            Dx, Dy = Dx * k['c'] - Dy * k['s'], Dy * k['c'] + Dx * k['s']
        for _ in range(qt):
            Dx, Dy = -Dy, Dx
        return Dx, Dy
    return cos_sin(x)


def sine_of(x):
    """sin x for an angle that is exactly one asin atom (its argument), else via cos_sin"""
    ctx = _ctx()
    x = core.lift(x)
    a = x.ang
    if a is not None and a.off == 0:
        items = [(k, q) for k, q in a.lin.items() if q != 0]
        if len(items) == 1 and items[0][1] == 1 and 'Z' in ctx.atoms[items[0][0]] and isinstance(items[0][0], tuple) and items[0][0][0] == 'asin':
            return ctx.atoms[items[0][0]]['Z']
    return cos_sin(x)[1]


# --------------------------------------------------------------------------- the math functions

def _box(ctx, name, x, lo=-1, hi=1):
    key = (name, z3.simplify(x.re()).sexpr())
    v = ctx.memo.get(key)
    if v is None:
        v = z3.Real(ctx.fresh_name(name))
        ctx.memo[key] = v
        ctx.assume(z3.And(v >= lo, v <= hi))
    return Num('r', e=v, ty=float)


def _box_fn(ctx, name, args, lo=None, hi=None, lo_strict=False, hi_strict=False):
    """box abstraction of a deterministic function: equal arguments (structurally) give the same variable"""
    key = ('fn-' + name,) + tuple(z3.simplify(a.re()).sexpr() for a in args)
    v = ctx.memo.get(key)
    if v is None:
        v = z3.Real(ctx.fresh_name(name))
        ctx.memo[key] = v
        cs = []
        if lo is not None:
            cs.append(v > lo if lo_strict else v >= lo)
        if hi is not None:
            cs.append(v < hi if hi_strict else v <= hi)
        if cs:
            ctx.assume(z3.And(*cs))
    return Num('r', e=v, ty=float)


def _concrete(name, *args):
    vals = []
    for a in args:
        a = core.lift(a)
        c = a.cval()
        if c is None:
            # value fixed through fresh variables (sqrt etc.): read it from the path's model
            m = _ctx().model_value(a.re())
            c = Fr(m.numerator_as_long(), m.denominator_as_long()) if z3.is_rational_value(m) else Fr(m.approx(20).numerator_as_long(), m.approx(20).denominator_as_long())
        vals.append(float(c))
    return Num.const(Fr(getattr(math, name)(*vals)))


def t_radians(x):
    x = core.lift(x)
    r = x * Num.const(RAD)
    r.ty = float
    if x.ang is not None:
        a = x.ang.copy()
        a.unit = 'rad'
        r.ang = a
    return r


def t_degrees(x):
    x = core.lift(x)
    r = x * Num.const(1 / RAD)
    r.ty = float
    if x.ang is not None:
        a = x.ang.copy()
        a.unit = 'deg'
        r.ang = a
    return r


def _as_angle(x):
    """give a plain number used as an angle (radians) a provenance: constants -> offset, else a free atom"""
    ctx = _ctx()
    if x.ang is not None:
        if x.ang.unit != 'rad':
            raise EngineError('sin/cos of a value measured in degrees')
        return x
    c = x.cval()
    if c is not None:
        deg = c / RAD
        # snap values that are the double nearest to a whole number of 1/1000 degrees (e.g. radians(23.44))
        near = Fr(round(deg * 100000), 100000)
        if abs(deg - near) < Fr(1, 10 ** 11):
            deg = near
        y = Num(x.k, x.n, x.d, x.e, ty=x.ty, iv=x.iv)
        y.ang = Ang({}, deg, 'rad')
        return y
    key = ('free', z3.simplify(x.re()).sexpr())      # structural key: equal arguments share the atom
    at = new_atom(ctx, key)
    ctx.path.notes.append('free-angle')
    y = Num('r', e=x.re(), ty=float)
    y.ang = Ang({key: Fr(1)}, Fr(0), 'rad')
    return y


def t_sin(x):
    ctx = _ctx()
    x = core.lift(x)
    if ctx.trig == 'box':
        return _box(ctx, 'sin', x)
    if ctx.trig == 'concrete':
        return _concrete('sin', x)
    if ctx.trig != 'atoms':
        raise EngineError('sin of a symbolic value without a trig mode')
    C, S = cos_sin(_as_angle(x))
    return Num('r', e=S, ty=float)


def t_cos(x):
    ctx = _ctx()
    x = core.lift(x)
    if ctx.trig == 'box':
        return _box(ctx, 'cos', x)
    if ctx.trig == 'concrete':
        return _concrete('cos', x)
    if ctx.trig != 'atoms':
        raise EngineError('cos of a symbolic value without a trig mode')
    C, S = cos_sin(_as_angle(x))
    return Num('r', e=C, ty=float)


def t_tan(x):
    ctx = _ctx()
    x = core.lift(x)
    if ctx.trig == 'concrete':
        return _concrete('tan', x)
    if ctx.trig == 'box':
        return _box_fn(ctx, 'tan', [x])
    C, S = cos_sin(_as_angle(x))
    # math.tan never raises: where cos = 0 it returns a huge finite number; that point is outside the model
    ctx.assume(C != 0)
    ctx.path.notes.append('tan: cos != 0 assumed')
    return Num('r', e=S / C, ty=float)


def _inverse(ctx, name, c, s, lo, hi, extra=()):
    """new atom with given (c, s) terms and principal range [lo, hi] degrees; returns a Num in radians"""
    key = (name, len(ctx.atoms) + 1)
    v = z3.Real(ctx.fresh_name('v_' + name))
    at = {'c': c, 's': s, 'v': v, 'key': key, 'range': (lo, hi)}
    ctx.atoms[key] = at
    facts = [v >= lo, v <= hi]
    if lo >= -180 and hi <= 180:
        facts += [z3.Implies(s > 0, z3.And(v > 0, v < 180)), z3.Implies(s < 0, z3.And(v < 0, v > -180)),
                  z3.Implies(z3.And(s == 0, c > 0), v == 0), z3.Implies(z3.And(s == 0, c < 0), z3.Or(v == 180, v == -180)),
                  z3.Implies(c > 0, z3.And(v > -90, v < 90)), z3.Implies(c < 0, z3.Or(v > 90, v < -90)),
                  z3.Implies(z3.And(c == 0, s > 0), v == 90), z3.Implies(z3.And(c == 0, s < 0), v == -90)]
    facts += list(extra)
    ctx.assume(z3.And(*facts))
    r = Num('r', e=v * z3.RealVal(str(RAD)), ty=float)
    r.ang = Ang({key: Fr(1)}, Fr(0), 'rad')
    return r


def t_atan2(y, x):
    ctx = _ctx()
    y, x = core.lift(y), core.lift(x)
    if ctx.trig == 'concrete':
        return _concrete('atan2', y, x)
    if ctx.trig == 'box':
        return _box_fn(ctx, 'atan2', [y, x], z3.RealVal(str(-PI_D)), z3.RealVal(str(PI_D)), lo_strict=True)
    ye, xe = y.re(), x.re()
    if ctx.decide(z3.And(ye == 0, xe == 0), weak_true=True):
        return Num.const(0.0)
    r = z3.Real(ctx.fresh_name('r'))
    c = z3.Real(ctx.fresh_name('c'))
    s = z3.Real(ctx.fresh_name('s'))
    ctx.assume(z3.And(r > 0, r * r == xe * xe + ye * ye, c * r == xe, s * r == ye, c * c + s * s == 1))
    res = _inverse(ctx, 'atan2', c, s, -180, 180, extra=[])
    at = ctx.atoms[list(res.ang.lin)[0]]
    at.update(X=xe, Y=ye, R=r)
    ctx.assume(at['v'] > -180)
    return res


def _domain(ctx, ze):
    if ctx.check_div0:
        if ctx.decide(z3.Or(ze > 1, ze < -1), weak_true=True):
            raise ValueError('math domain error')
    else:
        ctx.assume(z3.And(ze <= 1, ze >= -1))


def t_asin(z):
    ctx = _ctx()
    z = core.lift(z)
    if ctx.trig == 'concrete':
        return _concrete('asin', z)
    ze = z.re()
    _domain(ctx, ze)
    if ctx.trig == 'box':
        return _box_fn(ctx, 'asin', [z], z3.RealVal(str(-PI_D / 2)), z3.RealVal(str(PI_D / 2)))
    w = z3.Real(ctx.fresh_name('w'))
    ctx.assume(z3.And(w >= 0, w * w == 1 - ze * ze))
    res = _inverse(ctx, 'asin', w, ze, -90, 90)
    ctx.atoms[list(res.ang.lin)[0]].update(Z=ze, W=w)
    return res


def t_acos(z):
    ctx = _ctx()
    z = core.lift(z)
    if ctx.trig == 'concrete':
        return _concrete('acos', z)
    ze = z.re()
    _domain(ctx, ze)
    if ctx.trig == 'box':
        return _box_fn(ctx, 'acos', [z], z3.RealVal(0), z3.RealVal(str(PI_D)))
    w = z3.Real(ctx.fresh_name('w'))
    ctx.assume(z3.And(w >= 0, w * w == 1 - ze * ze))
    res = _inverse(ctx, 'acos', ze, w, 0, 180)
    ctx.atoms[list(res.ang.lin)[0]].update(Z=ze, W=w)
    return res


def t_atan(t):
    ctx = _ctx()
    t = core.lift(t)
    if ctx.trig == 'concrete':
        return _concrete('atan', t)
    te = t.re()
    if ctx.trig == 'box':
        return _box_fn(ctx, 'atan', [t], z3.RealVal(str(-PI_D / 2)), z3.RealVal(str(PI_D / 2)), lo_strict=True, hi_strict=True)
    r = z3.Real(ctx.fresh_name('r'))
    c = z3.Real(ctx.fresh_name('c'))
    s = z3.Real(ctx.fresh_name('s'))
    ctx.assume(z3.And(r >= 1, r * r == 1 + te * te, c * r == 1, s * r == te, c * c + s * s == 1, c > 0))
    res = _inverse(ctx, 'atan', c, s, -90, 90)
    ctx.atoms[list(res.ang.lin)[0]].update(T=te, R=r)
    return res


def t_log10(x):
    ctx = _ctx()
    x = core.lift(x)
    if ctx.trig == 'concrete':
        return _concrete('log10', x)
    v = z3.Real(ctx.fresh_name('log10'))
    return Num('r', e=v, ty=float)


# --------------------------------------------------------------------------- harness helpers

def input_angle(ctx_or_none, name, lo, hi, unit='deg'):
    """a symbolic angle (degrees) for harness inputs: returns (Num, [preconditions], atom dict).
    Must be called inside the explored function (atoms live per path)."""
    ctx = _ctx()
    c, s, v = z3.Real('c_' + name), z3.Real('s_' + name), z3.Real('v_' + name)
    at = {'c': c, 's': s, 'v': v, 'key': name, 'range': (lo, hi)}
    ctx.atoms[name] = at
    x = Num('r', e=v if unit == 'deg' else v * z3.RealVal(str(RAD)), ty=float)
    x.ang = Ang({name: Fr(1)}, Fr(0), unit)
    return x, at


def angle_pre(name, lo, hi, closed=True):
    """precondition for an input angle: unit circle, numeric range, and the sound sign links between
    the numeric value and (c, s) for ranges inside [-360, 360]"""
    c, s, v = z3.Real('c_' + name), z3.Real('s_' + name), z3.Real('v_' + name)
    pre = [c * c + s * s == 1, v >= lo if closed else v > lo, v <= hi if closed else v < hi]
    if lo >= -180 and hi <= 180:
        pre += [z3.Implies(z3.And(v > 0, v < 180), s > 0), z3.Implies(z3.And(v < 0, v > -180), s < 0),
                z3.Implies(v == 0, z3.And(s == 0, c == 1)), z3.Implies(z3.Or(v == 180, v == -180), z3.And(s == 0, c == -1)),
                z3.Implies(z3.And(v > -90, v < 90), c > 0), z3.Implies(z3.Or(v > 90, v < -90), c < 0),
                z3.Implies(z3.Or(v == 90), z3.And(c == 0, s == 1)), z3.Implies(v == -90, z3.And(c == 0, s == -1))]
    elif lo >= 0 and hi <= 360:
        pre += [z3.Implies(z3.And(v > 0, v < 180), s > 0), z3.Implies(z3.And(v > 180, v < 360), s < 0),
                z3.Implies(z3.Or(v == 0, v == 360), z3.And(s == 0, c == 1)), z3.Implies(v == 180, z3.And(s == 0, c == -1)),
                z3.Implies(z3.Or(v < 90, v > 270), c > 0), z3.Implies(z3.And(v > 90, v < 270), c < 0)]
    return pre


def install_reduce_summary(Angle):
    """replace Angle.reduce_deg, for angle-provenanced arguments only, by its contract (established bit-precisely by C03):
    r = x - 360 k, |r| < 360, sign r = sign x (or r = 0), k integer -- whole turns do not change the provenance"""
    orig = Angle.reduce_deg

    def reduce_deg(deg):
        if not (isinstance(deg, Num) and deg.ang is not None and core.CUR is not None and core.CUR.trig == 'atoms'):
            return orig(deg)
        ctx = core.CUR
        small = ctx.decide(z3.And(deg.e < 360, deg.e > -360))
        if small:
            return core.s_float(deg)
        k = z3.Int(ctx.fresh_name('turns'))
        r = z3.Real(ctx.fresh_name('reduced'))
        ctx.assume(z3.And(r == deg.e - 360 * z3.ToReal(k), r < 360, r > -360, z3.Implies(deg.e >= 0, r >= 0), z3.Implies(deg.e <= 0, r <= 0)))
        out = Num('r', e=r, ty=float)
        out.ang = deg.ang.copy()
        return out
    Angle.reduce_deg = staticmethod(reduce_deg)
    return orig
