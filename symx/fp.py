"""symx.fp -- mode F: bit-precise IEEE-754 binary64 proxies (z3 Float64 terms, RNE) and the 64-bit integers
that python code moves in and out of float context.

Python semantics modelled exactly for the operations the Angle kernels use:
  x % 1            fmod, exact; for x < 0 python adds 1.0 (one rounding) when the remainder is non-zero
  x % c  (c > 0)   fmod, exact: r = x - c*k with integral k, 0 <= r < c  (fresh k, r; fma keeps it exact)
  int(x)           truncation towards zero (fp.to_sbv RTZ) -- |x| < 2^62 is asserted as a side condition
  float(i)         fp from signed 64-bit (RNE)
  i % c (ints)     a fresh bounded integer with its DEFINITION kept on the side (`defn`), because 64-bit bvsrem
                   by a constant inside an FP query makes z3 give up; harnesses use the definition structurally
"""
import z3

from . import core
from .core import SBool, EngineError

D = z3.Float64()
RNE = z3.RNE()
RTZ = z3.RTZ()
RTN = z3.RTN()
W = 64


def fpv(v):
    return z3.FPVal(float(v), D)


def _ctx():
    if core.CUR is None:
        raise EngineError('FP proxy used outside an exploration')
    return core.CUR


def to_f(v):
    """FNum / FInt / python number -> z3 FP term"""
    if isinstance(v, FNum):
        return v.f
    if isinstance(v, FInt):
        return z3.fpSignedToFP(RNE, v.b, D)
    if isinstance(v, bool):
        return fpv(int(v))
    if isinstance(v, (int, float)):
        return fpv(v)
    return None


class FNum(object):
    __slots__ = ('f',)

    def __init__(self, f):
        self.f = f

    @staticmethod
    def var(name):
        return FNum(z3.FP(name, D))

    # hooks used by the replaced builtins
    def _symx_isinstance(self, k):
        return k is float or k is object

    def _symx_float(self):
        return self

    def _symx_int(self):
        return self.trunc()

    def _symx_floor(self):
        ctx = _ctx()
        ctx.assume(z3.fpLT(z3.fpAbs(self.f), fpv(2.0 ** 62)))
        return FInt(z3.fpToSBV(RTN, self.f, z3.BitVecSort(W)))

    def _symx_math(self, name, *a):
        if name == 'degrees':
            return FNum(z3.fpMul(RNE, self.f, fpv(57.29577951308232)))      # CPython: x * (180.0 / pi)
        if name == 'radians':
            return FNum(z3.fpMul(RNE, self.f, fpv(0.017453292519943295)))   # CPython: x * (pi / 180.0)
        if name == 'fabs':
            return abs(self)
        if name == 'sqrt':
            return FNum(z3.fpSqrt(RNE, self.f))
        raise EngineError('math.%s of an FP proxy' % name)

    def _symx_sqrt(self):
        return FNum(z3.fpSqrt(RNE, self.f))

    def trunc(self):
        ctx = _ctx()
        ctx.assume(z3.fpLT(z3.fpAbs(self.f), fpv(2.0 ** 62)))
        return FInt(z3.fpToSBV(RTZ, self.f, z3.BitVecSort(W)))

    def _bin(self, o, op, swap=False):
        of = to_f(o)
        if of is None:
            return NotImplemented
        a, b = (of, self.f) if swap else (self.f, of)
        return FNum(op(RNE, a, b))

    def __add__(s, o):
        return s._bin(o, z3.fpAdd)

    def __radd__(s, o):
        return s._bin(o, z3.fpAdd, True)

    def __sub__(s, o):
        return s._bin(o, z3.fpSub)

    def __rsub__(s, o):
        return s._bin(o, z3.fpSub, True)

    def __mul__(s, o):
        return s._bin(o, z3.fpMul)

    def __rmul__(s, o):
        return s._bin(o, z3.fpMul, True)

    def _div(s, o, swap):
        of = to_f(o)
        if of is None:
            return NotImplemented
        den = s.f if swap else of
        if _ctx().decide(z3.fpIsZero(den)):
            raise ZeroDivisionError('float division by zero')
        return s._bin(o, z3.fpDiv, swap)

    def __truediv__(s, o):
        return s._div(o, False)

    def __rtruediv__(s, o):
        return s._div(o, True)

    def __neg__(s):
        return FNum(z3.fpNeg(s.f))

    def __pos__(s):
        return s

    def __abs__(s):
        return FNum(z3.fpAbs(s.f))

    def __mod__(s, o):
        if isinstance(o, bool) or not isinstance(o, (int, float)) or o <= 0:
            return s._mod_sym(o)
        ctx = _ctx()
        c = float(o)
        if c == 1.0:
            tr = z3.fpRoundToIntegral(RTZ, s.f)
            fr = z3.fpSub(RNE, s.f, tr)                       # exact: fmod(x, 1)
            # python float_rem: zero remainder -> +0.0; negative remainder gets the divisor added (one rounding)
            return FNum(z3.If(z3.fpIsZero(fr), fpv(0.0), z3.If(z3.fpIsNegative(fr), z3.fpAdd(RNE, fr, fpv(1.0)), fr)))
        neg = ctx.decide(z3.fpLT(s.f, fpv(0.0)))
        x = z3.fpAbs(s.f)
        k = z3.FP(ctx.fresh_name('fmodk'), D)
        r = z3.FP(ctx.fresh_name('fmodr'), D)
        ctx.assume(z3.And(z3.fpEQ(k, z3.fpRoundToIntegral(RTZ, k)), z3.fpGEQ(k, fpv(0.0)), z3.fpLT(k, fpv(2.0 ** 62)),
                          z3.fpEQ(r, z3.fpFMA(RNE, fpv(-c), k, x)), z3.fpGEQ(r, fpv(0.0)), z3.fpLT(r, fpv(c)),
                          z3.Not(z3.fpIsNaN(x)), z3.Not(z3.fpIsInf(x))))
        if not neg:
            return FNum(r)
        # x < 0: fmod gives -r; python adds c when -r != 0
        return FNum(z3.If(z3.fpIsZero(r), fpv(0.0), z3.fpAdd(RNE, z3.fpNeg(r), fpv(c))))

    def _mod_sym(s, o):
        """x % y for a symbolic positive y and non-negative x (the only use: abs(a) % b in Angle.__mod__)"""
        of = to_f(o)
        if of is None:
            return NotImplemented
        ctx = _ctx()
        if ctx.decide(z3.fpIsZero(of)):
            raise ZeroDivisionError('float modulo')
        if ctx.decide(z3.Or(z3.fpLT(of, fpv(0.0)), z3.fpLT(s.f, fpv(0.0)))):
            raise EngineError('float modulo with negative operand is outside the FP model')
        k = z3.FP(ctx.fresh_name('fmodk'), D)
        r = z3.FP(ctx.fresh_name('fmodr'), D)
        ctx.assume(z3.And(z3.fpEQ(k, z3.fpRoundToIntegral(RTZ, k)), z3.fpGEQ(k, fpv(0.0)),
                          z3.fpEQ(r, z3.fpFMA(RNE, z3.fpNeg(of), k, s.f)), z3.fpGEQ(r, fpv(0.0)), z3.fpLT(r, of)))
        ctx.path.notes.append('fmod-symbolic-divisor')
        return FNum(r)

    def __rmod__(s, o):
        of = to_f(o)
        if of is None:
            return NotImplemented
        return FNum(of)._mod_sym(s)

    def __pow__(s, o, mod=None):
        raise EngineError('float power is outside the FP model (no pow in the FP theory)')

    __rpow__ = __pow__

    def _cmp(s, o, op):
        of = to_f(o)
        if of is None:
            return NotImplemented
        return SBool(op(s.f, of))

    def __lt__(s, o):
        return s._cmp(o, z3.fpLT)

    def __le__(s, o):
        return s._cmp(o, z3.fpLEQ)

    def __gt__(s, o):
        return s._cmp(o, z3.fpGT)

    def __ge__(s, o):
        return s._cmp(o, z3.fpGEQ)

    def __eq__(s, o):
        r = s._cmp(o, z3.fpEQ)
        return SBool(z3.BoolVal(False)) if r is NotImplemented else r

    def __ne__(s, o):
        r = s._cmp(o, z3.fpNEQ)
        return SBool(z3.BoolVal(True)) if r is NotImplemented else r

    def __hash__(s):
        return hash(('symx.FNum', s.f.get_id()))

    def __bool__(s):
        return _ctx().decide(z3.Not(z3.fpIsZero(s.f)))

    def __round__(s, nd=None):
        """round(x, nd): CPython returns the double nearest to the correctly rounded decimal.  Modelled as a sound
        superset: the double nearest to k/10^nd for an integer k with |k - x*10^nd| <= 1/2 + 2^-40 (ties either way)."""
        ctx = _ctx()
        if nd is None:
            nd = 0
            to_int = True
        else:
            to_int = False
        if not isinstance(nd, int):
            raise EngineError('symbolic ndigits')
        if nd > 15 or nd < 0:
            raise EngineError('ndigits outside 0..15')
        p = float(10 ** nd)
        key = ('round', s.f.get_id(), nd, to_int)
        hit = ctx.memo.get(key)
        if hit is not None:
            return hit                                   # the same term rounds to the same value
        ctx.memo.setdefault('keep', []).append(s.f)
        ctx.assume(z3.fpLT(z3.fpAbs(s.f), fpv(2.0 ** 40)))
        k = z3.FP(ctx.fresh_name('roundk'), D)
        res = z3.FP(ctx.fresh_name('round'), D)
        scaled = z3.fpMul(RNE, s.f, fpv(p))
        ctx.assume(z3.And(z3.fpEQ(k, z3.fpRoundToIntegral(RNE, k)), z3.fpLEQ(z3.fpAbs(z3.fpSub(RNE, k, scaled)), fpv(0.5 + 2.0 ** -20)),
                          z3.fpEQ(res, z3.fpDiv(RNE, k, fpv(p)))))
        out = FInt(z3.fpToSBV(RTZ, res, z3.BitVecSort(W))) if to_int else FNum(res)
        ctx.memo[key] = out
        return out

    def __format__(s, spec):
        _ctx().path.notes.append(('format', s, spec))
        return '<fp>'

    def __str__(s):
        return '<fp>'

    __repr__ = __str__


class FInt(object):
    """a python int living in 64 signed bits (overflow excluded by side conditions); `defn` keeps the definition
    of values produced by % so that harnesses can use it structurally"""
    __slots__ = ('b', 'defn')

    def __init__(self, b, defn=None):
        self.b = b
        self.defn = defn

    def _symx_isinstance(self, k):
        return k is int or k is object

    def _symx_float(self):
        return FNum(z3.fpSignedToFP(RNE, self.b, D))

    def _symx_int(self):
        return self

    def _symx_floor(self):
        return self

    def _lift(self, o):
        if isinstance(o, FInt):
            return o.b
        if isinstance(o, bool):
            return z3.BitVecVal(int(o), W)
        if isinstance(o, int):
            return z3.BitVecVal(o, W)
        return None

    def _arith(s, o, op, fop, swap=False):
        ob = s._lift(o)
        if ob is not None:
            a, b = (ob, s.b) if swap else (s.b, ob)
            ctx = _ctx()
            res = op(a, b)
            # no wrap-around: operands and result stay well inside 63 bits (side condition of the model)
            lim = z3.BitVecVal(2 ** 61, W)
            ctx.assume(z3.And(a < lim, a > -lim, b < lim, b > -lim))
            return FInt(res)
        if isinstance(o, (float, FNum)):
            f = s._symx_float()
            return fop(to_f_wrap(o), f) if swap else fop(f, to_f_wrap(o))
        return NotImplemented

    def __add__(s, o):
        return s._arith(o, lambda a, b: a + b, lambda a, b: a + b)

    def __radd__(s, o):
        return s._arith(o, lambda a, b: a + b, lambda a, b: a + b, True)

    def __sub__(s, o):
        return s._arith(o, lambda a, b: a - b, lambda a, b: a - b)

    def __rsub__(s, o):
        return s._arith(o, lambda a, b: a - b, lambda a, b: a - b, True)

    def __mul__(s, o):
        if isinstance(o, (float, FNum)):
            return s._symx_float() * to_f_wrap(o)
        ob = s._lift(o)
        if ob is None:
            return NotImplemented
        if isinstance(o, FInt):
            raise EngineError('product of two symbolic ints in FP mode')
        return FInt(s.b * ob)

    def __rmul__(s, o):
        if isinstance(o, (float, FNum)):
            return to_f_wrap(o) * s._symx_float()
        return s.__mul__(o)

    def __truediv__(s, o):
        return s._symx_float() / (o._symx_float() if isinstance(o, FInt) else o)

    def __rtruediv__(s, o):
        return (o._symx_float() if isinstance(o, FInt) else to_f_wrap(o)) / s._symx_float()

    def __neg__(s):
        return FInt(-s.b)

    def __abs__(s):
        return FInt(z3.If(s.b >= 0, s.b, -s.b))

    def __mod__(s, o):
        if isinstance(o, bool) or not isinstance(o, int) or o <= 0:
            if isinstance(o, float):
                return s._symx_float() % o
            raise EngineError('integer modulo by a non-constant')
        ctx = _ctx()
        key = ('imod', s.b.get_id(), o)
        r = ctx.memo.get(key)
        if r is None:
            # one fresh integer per (operand term, modulus): the same operand gives the same remainder
            r = z3.BitVec(ctx.fresh_name('imod'), W)
            ctx.memo[key] = r
            ctx.memo.setdefault('keep', []).append(s.b)
            ctx.assume(z3.And(r >= 0, r < o))
            if getattr(ctx, 'imod_exact', False):
                # small operands: assert the definition itself (python % for a positive modulus = bvsmod)
                ctx.assume(r == z3.SRem(z3.SRem(s.b, o) + o, o))
            ctx.path.extra.setdefault('imod', []).append((r, s.b, o))
        return FInt(r, defn=('mod', s.b, o))

    def _cmp(s, o, op, fop):
        ob = s._lift(o)
        if ob is not None:
            return SBool(op(s.b, ob))
        if isinstance(o, (float, FNum)):
            return SBool(fop(z3.fpSignedToFP(RNE, s.b, D), to_f(o)))
        return NotImplemented

    def __lt__(s, o):
        return s._cmp(o, lambda a, b: a < b, z3.fpLT)

    def __le__(s, o):
        return s._cmp(o, lambda a, b: a <= b, z3.fpLEQ)

    def __gt__(s, o):
        return s._cmp(o, lambda a, b: a > b, z3.fpGT)

    def __ge__(s, o):
        return s._cmp(o, lambda a, b: a >= b, z3.fpGEQ)

    def __eq__(s, o):
        r = s._cmp(o, lambda a, b: a == b, z3.fpEQ)
        return SBool(z3.BoolVal(False)) if r is NotImplemented else r

    def __ne__(s, o):
        r = s._cmp(o, lambda a, b: a != b, z3.fpNEQ)
        return SBool(z3.BoolVal(True)) if r is NotImplemented else r

    def __hash__(s):
        return hash(('symx.FInt', s.b.get_id()))

    def __bool__(s):
        return _ctx().decide(s.b != 0)

    def __index__(s):
        ctx = _ctx()
        for _ in range(400):
            v = ctx.model_value(s.b)
            if ctx.decide(s.b == v):
                return v.as_signed_long()
        raise core.Unwind()

    def __format__(s, spec):
        _ctx().path.notes.append(('format', s, spec))
        return '<int>'

    def __str__(s):
        return '<int>'

    __repr__ = __str__


def to_f_wrap(o):
    return o if isinstance(o, FNum) else FNum(fpv(o))


def finite(x, bound=1e15):
    """precondition: finite with |x| <= bound"""
    return z3.And(z3.Not(z3.fpIsNaN(x.f)), z3.Not(z3.fpIsInf(x.f)), z3.fpLEQ(z3.fpAbs(x.f), fpv(bound)))


def fp_model_float(model, term):
    """the python float an FP term takes in a model (bit exact)"""
    v = model.eval(term, model_completion=True)
    if z3.is_fp_value(v):
        if v.isNaN():
            return float('nan')
        if v.isInf():
            return float('-inf') if v.isNegative() else float('inf')
        bv = model.eval(z3.fpToIEEEBV(term), model_completion=True)
        import struct
        return struct.unpack('>d', struct.pack('>Q', bv.as_long()))[0]
    raise EngineError('no FP value in model')
