"""C09 -- geocentric positions of the planets: the wiring of the light-time correction (value-free part).

Real code executed symbolically: the head of <Planet>.geocentric_position (up to the second x, y, z), cut from the current
AST, for Mercury..Neptune, with the heliocentric position theory of the planet and of the Earth replaced by an
uninterpreted function (fresh symbolic (l, b, r) per call; the epoch and flags of every call are recorded), sin/cos boxed.
Decided: the Earth is taken at the caller's epoch, the planet first at that epoch and then at epoch - 0.0057755183 * Delta
(Delta = length of the first difference vector), the final vector is planet(t - tau) - Earth(t) component by component,
and the caller's Epoch object is not shifted.
"""
import z3

from symx import core, loader, harness, slicer
from symx.core import Num

PID = 'C09'
PLANETS = ['Mercury', 'Venus', 'Mars', 'Jupiter', 'Saturn', 'Uranus', 'Neptune']
RAD = 0.017453292519943295

REPLAY = r'''
import importlib
from math import sin, cos, atan2, sqrt, degrees, radians, acos
from pymeeus.Epoch import Epoch
from pymeeus.Earth import Earth
from pymeeus.Coordinates import true_obliquity, ecliptical2equatorial
from pymeeus.Angle import Angle
mod = importlib.import_module('pymeeus.' + INPUTS['planet'])
P = getattr(mod, INPUTS['planet'])
bad = None
calls = []
origP, origE = P.geometric_heliocentric_position, Earth.geometric_heliocentric_position
def wrapP(ep, *a, **k):
    r_ = origP(ep, *a, **k); calls.append(('planet', ep.jde(), r_)); return r_
def wrapE(ep, *a, **k):
    r_ = origE(ep, *a, **k); calls.append(('earth', ep.jde(), r_)); return r_
def vec(pr, er):
    (l, b, r), (l0, b0, r0) = pr, er
    return (r * cos(b.rad()) * cos(l.rad()) - r0 * cos(b0.rad()) * cos(l0.rad()), r * cos(b.rad()) * sin(l.rad()) - r0 * cos(b0.rad()) * sin(l0.rad()),
            r * sin(b.rad()) - r0 * sin(b0.rad()))
for jd in (2451545.0, 2448976.5, 2460000.5, 2415020.5, 2305447.5, 2634166.5):
    e = Epoch(jd)
    before = e.jde()
    del calls[:]
    P.geometric_heliocentric_position, Earth.geometric_heliocentric_position = staticmethod(wrapP), staticmethod(wrapE)
    try:
        ra, dec, elon = P.geocentric_position(e)
    finally:
        P.geometric_heliocentric_position, Earth.geometric_heliocentric_position = origP, origE
    if e.jde() != before:
        bad = 'the caller\'s Epoch moved from %r to %r' % (before, e.jde()); break
    # the real function, observed at its calls of the position theory
    pc = [c for c in calls if c[0] == 'planet']; ec = [c for c in calls if c[0] == 'earth']
    if len(pc) != 2 or len(ec) < 1:
        bad = 'position theory called %r' % [c[0] for c in calls]; break
    if ec[0][1] != jd or pc[0][1] != jd:
        bad = 'first evaluations at %r / %r, caller epoch %r' % (ec[0][1], pc[0][1], jd); break
    dl = sqrt(sum(c * c for c in vec(pc[0][2], ec[0][2])))
    tau_seen = jd - pc[1][1]
    if not (0.99 * 0.0057755183 * dl <= tau_seen <= 1.01 * 0.0057755183 * dl):
        bad = 'JDE %r: planet re-evaluated %r days earlier, light-time is %r days' % (jd, tau_seen, 0.0057755183 * dl); break
    l0, b0, r0 = Earth.geometric_heliocentric_position(e, tofk5=False)
    tau = 0.0
    for _ in range(3):
        l, b, r = P.geometric_heliocentric_position(Epoch(jd - tau), tofk5=False)
        x = r * cos(b.rad()) * cos(l.rad()) - r0 * cos(b0.rad()) * cos(l0.rad())
        y = r * cos(b.rad()) * sin(l.rad()) - r0 * cos(b0.rad()) * sin(l0.rad())
        z = r * sin(b.rad()) - r0 * sin(b0.rad())
        tau = 0.0057755183 * sqrt(x * x + y * y + z * z)
    lam, bet = atan2(y, x), atan2(z, sqrt(x * x + y * y))
    a2, d2 = ecliptical2equatorial(Angle(lam, radians=True), Angle(bet, radians=True), true_obliquity(e))
    c = sin(dec.rad()) * sin(d2.rad()) + cos(dec.rad()) * cos(d2.rad()) * cos(ra.rad() - a2.rad())
    sep = degrees(acos(max(-1.0, min(1.0, c))))
    if sep > 0.02:
        bad = 'JDE %r: returned direction is %r degrees from the Earth(t) -> planet(t - tau) vector' % (jd, sep); break
    if not (0.0 <= float(elon) <= 180.0):
        bad = 'elongation %r' % float(elon); break
if bad:
    print('REPRODUCED %s: %s.geocentric_position: %s' % (SITE, INPUTS['planet'], bad)); sys.exit(1)
print('not reproduced'); sys.exit(0)
'''


class PassAngle(object):
    def __init__(self, v=0.0, *a, **k):
        self.v = v.v if isinstance(v, PassAngle) else v

    def rad(self):
        return self.v * Num.const(RAD)

    def to_positive(self):
        return self

    def __call__(self):
        return self.v


def task_planet(pl):
    t = harness.Task('%s.geocentric_position' % pl)
    mod = loader.mod(pl)
    E = loader.mod('Epoch')
    Epoch = E.Epoch
    cls = getattr(mod, pl)
    try:
        head, _src = slicer.head_until(pl, '%s.geocentric_position' % pl, 'z = r * sin(br) - r0 * sin(b0r)', 'epoch', '(x, y, z, epoch)')
    except core.EngineError as ex:
        t.ob('%s.geocentric_position: the second difference vector found' % pl, 'unknown', 0, str(ex))
        return t
    j = Num.real_var('jde')
    calls = []
    orig_set, orig_p, orig_e = Epoch.set, cls.geometric_heliocentric_position, mod.Earth.geometric_heliocentric_position

    def set_summary(self, *args, **kw):
        if len(args) == 1 and not kw and core.s_isinstance(args[0], (int, float)):
            self._jde = args[0]
            return
        return orig_set(self, *args, **kw)

    def theory(who):
        def f(epoch, *a, **k):
            n = len(calls)
            l, b, r = Num.real_var('l%d' % n), Num.real_var('b%d' % n), Num.real_var('r%d' % n)
            core.CUR.assume(z3.And(r.e > z3.RealVal('0.2'), r.e < z3.RealVal('40')))
            calls.append((who, epoch._jde, l, b, r))
            return PassAngle(l), PassAngle(b), r
        return staticmethod(f)
    q = Epoch()
    S, C = core.MATH['sin'], core.MATH['cos']

    def vec(pc, ec):
        _, _, l, b, r = pc
        _, _, l0, b0, r0 = ec
        lr, br, l0r, b0r = l * Num.const(RAD), b * Num.const(RAD), l0 * Num.const(RAD), b0 * Num.const(RAD)
        return (r * C(br) * C(lr) - r0 * C(b0r) * C(l0r), r * C(br) * S(lr) - r0 * C(b0r) * S(l0r), r * S(br) - r0 * S(b0r))

    def run():
        del calls[:]
        q._jde = j
        x, y, z, ep = head(q)
        pcs = [c for c in calls if c[0] == 'planet']
        ecs = [c for c in calls if c[0] == 'earth']
        spec = None
        if len(pcs) == 2 and len(ecs) == 1:
            spec = (vec(pcs[0], ecs[0]), vec(pcs[1], ecs[0]))
        return (x, y, z), list(calls), spec, q._jde, (ep is q)
    Epoch.set = set_summary
    cls.geometric_heliocentric_position = theory('planet')
    mod.Earth.geometric_heliocentric_position = theory('earth')
    try:
        ctx, paths = core.explore(run, [j.e >= 990557, j.e <= 3182396], trig='box', check_div0=False, timeout_ms=20000, max_paths=20, max_seconds=300)
    finally:
        Epoch.set, cls.geometric_heliocentric_position, mod.Earth.geometric_heliocentric_position = orig_set, orig_p, orig_e
    t.absorb_ctx(ctx, paths)
    bd = '%s: every epoch of -2000..4000; position theory uninterpreted (fresh (l, b, r) per call, 0.2 < r < 40 AU); sin/cos boxed' % pl
    inp = lambda mo: {'kind': 'wiring', 'planet': pl}
    t.reach += 1
    if len(paths) != 1 or paths[0].kind != 'ok':
        t.ob('%s.geocentric_position head: one path, no exception' % pl, 'sat', 0, bd)
        t.cand('C09.wiring', inp(None), 'paths %r' % [(p.kind, repr(p.exc)) for p in paths][:3])
        return t
    p = paths[0]
    (x, y, z), cl, spec, jafter, same_obj = p.val
    q_ = dict(timeout_ms=60000, retry=False)
    if spec is None:
        t.ob('%s: the planet is evaluated twice and the Earth once' % pl, 'sat', 0, bd)
        t.cand('C09.wiring', inp(None), 'calls: %r' % [c[0] for c in cl])
        return t
    t.ob('%s: the planet is evaluated twice and the Earth once' % pl, 'unsat', 0, bd)
    pcs = [c for c in cl if c[0] == 'planet']
    ecs = [c for c in cl if c[0] == 'earth']
    je = j.e
    t.decide(ctx, p, 'Earth and first planet position are taken at the caller\'s epoch@' + pl,
             z3.Or(core.lift(ecs[0][1]).re() != je, core.lift(pcs[0][1]).re() != je), 'C09.wiring', inp, 'epochs of the first evaluations', bd, **q_)
    v1, v2 = spec
    d2 = sum((core.lift(c).re() * core.lift(c).re() for c in v1), z3.RealVal(0))
    tau = je - core.lift(pcs[1][1]).re()
    k = z3.RealVal('0.0057755183')
    t.decide(ctx, p, 'second planet position at epoch - 0.0057755183 * Delta (1 %), Delta = |planet(t) - Earth(t)|@' + pl,
             z3.Or(tau < 0, tau * tau < z3.RealVal('0.9801') * k * k * d2, tau * tau > z3.RealVal('1.0201') * k * k * d2), 'C09.wiring', inp, 'light-time', bd, **q_)
    t.decide(ctx, p, 'final vector = planet(t - tau) - Earth(t), component by component@' + pl,
             z3.Or(*[core.lift(a).re() != core.lift(b).re() for a, b in zip((x, y, z), v2)]), 'C09.wiring', inp, 'difference vector', bd, **q_)
    t.decide(ctx, p, 'the caller\'s Epoch is not shifted by the light-time correction@' + pl,
             core.lift(jafter).re() != je, 'C09.wiring', inp, 'caller epoch', bd, **q_)
    t.reach += 4
    return t


def main(tier):
    loader.install()
    chk = harness.Check(PID, tier)
    chk.replays = {'C09.wiring': REPLAY}
    chk.functions = ['%s.geocentric_position (head, up to the second difference vector)' % pl for pl in PLANETS]
    chk.run(task_planet, PLANETS, 'light-time wiring of 7 planets')
    chk.bounds = {'epoch': 'every JDE of years -2000..4000 (symbolic real)', 'planets': PLANETS}
    chk.stubs = ['<Planet>.geometric_heliocentric_position and Earth.geometric_heliocentric_position -> uninterpreted theory: fresh symbolic (l, b, r) per call, epoch recorded',
                 'sin/cos -> boxes in [-1, 1] keyed by their argument; sqrt -> fresh non-negative real with its square; Epoch(number) -> stores the JDE (C02)']
    chk.outside = ['everything after the difference vector: aberration, FK5, nutation, conversion to equatorial coordinates (C05 decides ecliptical2equatorial itself), elongation value and its limits for Mercury / Venus',
                   'Pluto and minor bodies (different code: fixed-point iterations on series / Kepler solutions)', 'every clause on VALUES of the series']
    chk.assumptions = ['real arithmetic; box abstraction: equal arguments give the same box, so the component identities are polynomial identities in the boxes']
    return chk.finish()
