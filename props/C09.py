"""C09 -- geocentric positions of the planets: the wiring of the light-time correction (value-free part).

Real code executed symbolically: the head of <Planet>.geocentric_position (up to the second x, y, z), cut from the current
AST, for Mercury..Neptune, with the heliocentric position theory of the planet and of the Earth replaced by an
uninterpreted function (fresh symbolic (l, b, r) per call; the epoch and flags of every call are recorded), sin/cos boxed.
Decided: the Earth is taken at the caller's epoch, the planet first at that epoch and then at epoch - 0.0057755183 * Delta
(Delta = length of the first difference vector), the final vector is planet(t - tau) - Earth(t) component by component,
and the caller's Epoch object is not shifted.
"""
import z3

from symx import core, loader, harness, slicer
from symx.core import Num

PID = 'C09'
PLANETS = ['Mercury', 'Venus', 'Mars', 'Jupiter', 'Saturn', 'Uranus', 'Neptune']
RAD = 0.017453292519943295

REPLAY = r'''
import importlib
from math import sin, cos, atan2, sqrt, degrees, radians, acos
from pymeeus.Epoch import Epoch
from pymeeus.Earth import Earth
from pymeeus.Coordinates import true_obliquity, ecliptical2equatorial
from pymeeus.Angle import Angle
mod = importlib.import_module('pymeeus.' + INPUTS['planet'])
P = getattr(mod, INPUTS['planet'])
bad = None
if INPUTS['kind'] == 'elong':
    from pymeeus.Sun import Sun
    for jd in (2451545.0, 2448976.5, 2460000.5, 2415020.5, 2305447.5, 2634166.5, 2455000.5, 2457000.5):
        e = Epoch(jd)
        ra, dec, elon = P.geocentric_position(e)
        ls, bs, rs = Sun.apparent_geocentric_position(e)
        ras, decs = ecliptical2equatorial(ls, bs, true_obliquity(e))
        c = sin(dec.rad()) * sin(decs.rad()) + cos(dec.rad()) * cos(decs.rad()) * cos(ra.rad() - ras.rad())
        ang = degrees(acos(max(-1.0, min(1.0, c))))
        if abs(ang - float(elon)) > 0.02:
            bad = 'JDE %r: reported elongation %r, angle to the Sun\'s apparent direction at the same epoch %r' % (jd, float(elon), ang); break
    if bad:
        print('REPRODUCED %s: %s.geocentric_position: %s' % (SITE, INPUTS['planet'], bad)); sys.exit(1)
    print('not reproduced'); sys.exit(0)
calls = []
origP, origE = P.geometric_heliocentric_position, Earth.geometric_heliocentric_position
def wrapP(ep, *a, **k):
    r_ = origP(ep, *a, **k); calls.append(('planet', ep.jde(), r_)); return r_
def wrapE(ep, *a, **k):
    r_ = origE(ep, *a, **k); calls.append(('earth', ep.jde(), r_)); return r_
def vec(pr, er):
    (l, b, r), (l0, b0, r0) = pr, er
    return (r * cos(b.rad()) * cos(l.rad()) - r0 * cos(b0.rad()) * cos(l0.rad()), r * cos(b.rad()) * sin(l.rad()) - r0 * cos(b0.rad()) * sin(l0.rad()),
            r * sin(b.rad()) - r0 * sin(b0.rad()))
for jd in (2451545.0, 2448976.5, 2460000.5, 2415020.5, 2305447.5, 2634166.5):
    e = Epoch(jd)
    before = e.jde()
    del calls[:]
    P.geometric_heliocentric_position, Earth.geometric_heliocentric_position = staticmethod(wrapP), staticmethod(wrapE)
    try:
        ra, dec, elon = P.geocentric_position(e)
    finally:
        P.geometric_heliocentric_position, Earth.geometric_heliocentric_position = origP, origE
    if e.jde() != before:
        bad = 'the caller\'s Epoch moved from %r to %r' % (before, e.jde()); break
    # the real function, observed at its calls of the position theory
    pc = [c for c in calls if c[0] == 'planet']; ec = [c for c in calls if c[0] == 'earth']
    if len(pc) != 2 or len(ec) < 1:
        bad = 'position theory called %r' % [c[0] for c in calls]; break
    if ec[0][1] != jd or pc[0][1] != jd:
        bad = 'first evaluations at %r / %r, caller epoch %r' % (ec[0][1], pc[0][1], jd); break
    dl = sqrt(sum(c * c for c in vec(pc[0][2], ec[0][2])))
    tau_seen = jd - pc[1][1]
    if not (0.99 * 0.0057755183 * dl <= tau_seen <= 1.01 * 0.0057755183 * dl):
        bad = 'JDE %r: planet re-evaluated %r days earlier, light-time is %r days' % (jd, tau_seen, 0.0057755183 * dl); break
    l0, b0, r0 = Earth.geometric_heliocentric_position(e, tofk5=False)
    tau = 0.0
    for _ in range(3):
        l, b, r = P.geometric_heliocentric_position(Epoch(jd - tau), tofk5=False)
        x = r * cos(b.rad()) * cos(l.rad()) - r0 * cos(b0.rad()) * cos(l0.rad())
        y = r * cos(b.rad()) * sin(l.rad()) - r0 * cos(b0.rad()) * sin(l0.rad())
        z = r * sin(b.rad()) - r0 * sin(b0.rad())
        tau = 0.0057755183 * sqrt(x * x + y * y + z * z)
    lam, bet = atan2(y, x), atan2(z, sqrt(x * x + y * y))
    a2, d2 = ecliptical2equatorial(Angle(lam, radians=True), Angle(bet, radians=True), true_obliquity(e))
    c = sin(dec.rad()) * sin(d2.rad()) + cos(dec.rad()) * cos(d2.rad()) * cos(ra.rad() - a2.rad())
    sep = degrees(acos(max(-1.0, min(1.0, c))))
    if sep > 0.02:
        bad = 'JDE %r: returned direction is %r degrees from the Earth(t) -> planet(t - tau) vector' % (jd, sep); break
    if not (0.0 <= float(elon) <= 180.0):
        bad = 'elongation %r' % float(elon); break
if bad:
    print('REPRODUCED %s: %s.geocentric_position: %s' % (SITE, INPUTS['planet'], bad)); sys.exit(1)
print('not reproduced'); sys.exit(0)
'''


MINOR_REPLAY = r'''
from math import sin, cos, acos, degrees
from pymeeus.Angle import Angle
from pymeeus.Epoch import Epoch
from pymeeus.Minor import Minor
bad = None
def sep(a, b):
    c = sin(a[1].rad()) * sin(b[1].rad()) + cos(a[1].rad()) * cos(b[1].rad()) * cos(a[0].rad() - b[0].rad())
    return degrees(acos(max(-1.0, min(1.0, c))))
T = Epoch(1998, 4, 14.4358)
# the three branches must join at their switch points: a body seen one light-time earlier in one branch and not in its
# neighbour jumps by several 1e-3 degree there
for q, dt in ((1.487469, 113.0), (0.5, 30.0), (0.3, -10.0), (2.0, 400.0)):
    pos = {}
    for e in (1.0, 1.0 - 1e-7, 0.98, 0.98 - 1e-10):
        m = Minor(q, e, Angle(104.69219), Angle(222.10887), Angle(1.32431), T)
        ep = Epoch(T.jde() + dt)
        before = ep.jde()
        r = m.geocentric_position(ep)
        if ep.jde() != before:
            bad = 'the caller\'s Epoch moved'
        pos[e] = (r[0], r[1])
    d1, d2 = sep(pos[1.0], pos[1.0 - 1e-7]), sep(pos[0.98], pos[0.98 - 1e-10])
    if d1 > 5e-4:
        bad = 'q=%r dt=%r: parabolic and e = 1 - 1e-7 positions %r degrees apart' % (q, dt, d1)
    if d2 > 1e-4:
        bad = 'q=%r dt=%r: e = 0.98 and e = 0.98 - 1e-10 positions %r degrees apart' % (q, dt, d2)
    if bad:
        break
if bad:
    print('REPRODUCED %s: Minor.geocentric_position: %s' % (SITE, bad)); sys.exit(1)
print('not reproduced'); sys.exit(0)
'''


PLUTO_REPLAY = r'''
from math import sin, cos, sqrt, atan2, asin, degrees, acos
from pymeeus.Epoch import Epoch
from pymeeus.Pluto import Pluto
from pymeeus.Sun import Sun
bad = None
calls = []
orig = Pluto.geometric_heliocentric_position
def wrap(ep, *a, **k):
    r_ = orig(ep, *a, **k); calls.append((ep.jde(), r_)); return r_
sine, cose = 0.397777156, 0.917482062
def vec(p):
    l, b, r = p[0].rad(), p[1].rad(), p[2]
    return (r * cos(l) * cos(b), r * (sin(l) * cos(b) * cose - sin(b) * sine), r * (sin(l) * cos(b) * sine + sin(b) * cose))
for jd in (2448908.5, 2451545.0, 2415020.5, 2460000.5, 2480000.5):
    e = Epoch(jd); before = e.jde(); del calls[:]
    Pluto.geometric_heliocentric_position = staticmethod(wrap)
    try:
        ra, dec = Pluto.geocentric_position(e)
    finally:
        Pluto.geometric_heliocentric_position = orig
    if e.jde() != before:
        bad = 'the caller\'s Epoch moved'; break
    xs, ys, zs = Sun.rectangular_coordinates_j2000(e)
    if len(calls) != 2 or calls[0][0] != jd:
        bad = 'theory called at %r' % [c[0] for c in calls]; break
    v1 = vec(calls[0][1]); d1 = sqrt((v1[0] + xs) ** 2 + (v1[1] + ys) ** 2 + (v1[2] + zs) ** 2)
    tau = jd - calls[1][0]
    if not (0.99 * 0.0057755183 * d1 <= tau <= 1.01 * 0.0057755183 * d1):
        bad = 'JDE %r: re-evaluated %r days earlier, light-time %r' % (jd, tau, 0.0057755183 * d1); break
    v2 = vec(orig(Epoch(jd - 0.0057755183 * d1)))
    xi, eta, zeta = v2[0] + xs, v2[1] + ys, v2[2] + zs
    a2, d2 = atan2(eta, xi), asin(zeta / sqrt(xi * xi + eta * eta + zeta * zeta))
    c = sin(dec.rad()) * sin(d2) + cos(dec.rad()) * cos(d2) * cos(ra.rad() - a2)
    if degrees(acos(max(-1.0, min(1.0, c)))) > 1e-4:
        bad = 'JDE %r: returned direction %r degrees from Earth(t) -> Pluto(t - tau)' % (jd, degrees(acos(max(-1.0, min(1.0, c))))); break
if bad:
    print('REPRODUCED %s: Pluto.geocentric_position: %s' % (SITE, bad)); sys.exit(1)
print('not reproduced'); sys.exit(0)
'''


class PassAngle(object):
    def __init__(self, v=0.0, *a, **k):
        self.v = v.v if isinstance(v, PassAngle) else v

    def rad(self):
        return self.v * Num.const(RAD)

    def to_positive(self):
        return self

    def __call__(self):
        return self.v


def task_planet(pl):
    t = harness.Task('%s.geocentric_position' % pl)
    mod = loader.mod(pl)
    E = loader.mod('Epoch')
    Epoch = E.Epoch
    cls = getattr(mod, pl)
    try:
        head, _src = slicer.head_until(pl, '%s.geocentric_position' % pl, 'z = r * sin(br) - r0 * sin(b0r)', 'epoch', '(x, y, z, epoch)')
    except core.EngineError as ex:
        t.ob('%s.geocentric_position: the second difference vector found' % pl, 'unknown', 0, str(ex))
        return t
    j = Num.real_var('jde')
    calls = []
    orig_set, orig_p, orig_e = Epoch.set, cls.geometric_heliocentric_position, mod.Earth.geometric_heliocentric_position

    def set_summary(self, *args, **kw):
        if len(args) == 1 and not kw and core.s_isinstance(args[0], (int, float)):
            self._jde = args[0]
            return
        return orig_set(self, *args, **kw)

    def theory(who):
        def f(epoch, *a, **k):
            n = len(calls)
            l, b, r = Num.real_var('l%d' % n), Num.real_var('b%d' % n), Num.real_var('r%d' % n)
            core.CUR.assume(z3.And(r.e > z3.RealVal('0.2'), r.e < z3.RealVal('40')))
            calls.append((who, epoch._jde, l, b, r))
            return PassAngle(l), PassAngle(b), r
        return staticmethod(f)
    q = Epoch()
    S, C = core.MATH['sin'], core.MATH['cos']

    def vec(pc, ec):
        _, _, l, b, r = pc
        _, _, l0, b0, r0 = ec
        lr, br, l0r, b0r = l * Num.const(RAD), b * Num.const(RAD), l0 * Num.const(RAD), b0 * Num.const(RAD)
        return (r * C(br) * C(lr) - r0 * C(b0r) * C(l0r), r * C(br) * S(lr) - r0 * C(b0r) * S(l0r), r * S(br) - r0 * S(b0r))

    def run():
        del calls[:]
        q._jde = j
        x, y, z, ep = head(q)
        pcs = [c for c in calls if c[0] == 'planet']
        ecs = [c for c in calls if c[0] == 'earth']
        spec = None
        if len(pcs) == 2 and len(ecs) == 1:
            spec = (vec(pcs[0], ecs[0]), vec(pcs[1], ecs[0]))
        return (x, y, z), list(calls), spec, q._jde, (ep is q)
    Epoch.set = set_summary
    cls.geometric_heliocentric_position = theory('planet')
    mod.Earth.geometric_heliocentric_position = theory('earth')
    try:
        ctx, paths = core.explore(run, [j.e >= 990557, j.e <= 3182396], trig='box', check_div0=False, timeout_ms=20000, max_paths=20, max_seconds=300)
    finally:
        Epoch.set, cls.geometric_heliocentric_position, mod.Earth.geometric_heliocentric_position = orig_set, orig_p, orig_e
    t.absorb_ctx(ctx, paths)
    bd = '%s: every epoch of -2000..4000; position theory uninterpreted (fresh (l, b, r) per call, 0.2 < r < 40 AU); sin/cos boxed' % pl
    inp = lambda mo: {'kind': 'wiring', 'planet': pl}
    t.reach += 1
    if len(paths) != 1 or paths[0].kind != 'ok':
        t.ob('%s.geocentric_position head: one path, no exception' % pl, 'sat', 0, bd)
        t.cand('C09.wiring', inp(None), 'paths %r' % [(p.kind, repr(p.exc)) for p in paths][:3])
        return t
    p = paths[0]
    (x, y, z), cl, spec, jafter, same_obj = p.val
    q_ = dict(timeout_ms=60000, retry=False)
    if spec is None:
        t.ob('%s: the planet is evaluated twice and the Earth once' % pl, 'sat', 0, bd)
        t.cand('C09.wiring', inp(None), 'calls: %r' % [c[0] for c in cl])
        return t
    t.ob('%s: the planet is evaluated twice and the Earth once' % pl, 'unsat', 0, bd)
    pcs = [c for c in cl if c[0] == 'planet']
    ecs = [c for c in cl if c[0] == 'earth']
    je = j.e
    t.decide(ctx, p, 'Earth and first planet position are taken at the caller\'s epoch@' + pl,
             z3.Or(core.lift(ecs[0][1]).re() != je, core.lift(pcs[0][1]).re() != je), 'C09.wiring', inp, 'epochs of the first evaluations', bd, **q_)
    v1, v2 = spec
    d2 = sum((core.lift(c).re() * core.lift(c).re() for c in v1), z3.RealVal(0))
    tau = je - core.lift(pcs[1][1]).re()
    k = z3.RealVal('0.0057755183')
    t.decide(ctx, p, 'second planet position at epoch - 0.0057755183 * Delta (1 %), Delta = |planet(t) - Earth(t)|@' + pl,
             z3.Or(tau < 0, tau * tau < z3.RealVal('0.9801') * k * k * d2, tau * tau > z3.RealVal('1.0201') * k * k * d2), 'C09.wiring', inp, 'light-time', bd, **q_)
    t.decide(ctx, p, 'final vector = planet(t - tau) - Earth(t), component by component@' + pl,
             z3.Or(*[core.lift(a).re() != core.lift(b).re() for a, b in zip((x, y, z), v2)]), 'C09.wiring', inp, 'difference vector', bd, **q_)
    t.decide(ctx, p, 'the caller\'s Epoch is not shifted by the light-time correction@' + pl,
             core.lift(jafter).re() != je, 'C09.wiring', inp, 'caller epoch', bd, **q_)
    t.reach += 4
    return t


RANGES = {'Mercury': ('0.30', '0.48'), 'Venus': ('0.71', '0.74'), 'Mars': ('1.37', '1.68'), 'Jupiter': ('4.9', '5.5'), 'Saturn': ('8.9', '10.2'),
          'Uranus': ('18.1', '20.3'), 'Neptune': ('29.6', '30.5')}


class GenAngle(object):
    """stand-in for Angle inside the planet module for the full run: a plain value in degrees with the arithmetic the
    method uses; Angle(x, radians=True) and Angle(0, 0, arcsec) are understood"""
    def __init__(self, *a, **k):
        if len(a) == 3:
            self.v = a[0] + a[1] / 60.0 + a[2] / 3600.0
        elif len(a) == 1:
            v = a[0].v if isinstance(a[0], GenAngle) else a[0]
            self.v = v * Num.const(1.0 / RAD) if k.get('radians') else v
        else:
            self.v = 0.0

    def _o(self, o):
        return o.v if isinstance(o, GenAngle) else o

    def __add__(self, o):
        return GenAngle(self.v + self._o(o))
    __radd__ = __add__
    __iadd__ = __add__

    def __sub__(self, o):
        return GenAngle(self.v - self._o(o))

    def __rsub__(self, o):
        return GenAngle(self._o(o) - self.v)

    def __neg__(self):
        return GenAngle(-self.v)

    def rad(self):
        return self.v * Num.const(RAD)

    def to_positive(self):
        return self

    def __call__(self):
        return self.v


def task_sun_epoch(pl):
    """the whole method with every callee uninterpreted: at which epoch is the Sun's apparent position asked for?"""
    t = harness.Task('%s.geocentric_position (elongation)' % pl)
    mod = loader.mod(pl)
    E = loader.mod('Epoch')
    Epoch = E.Epoch
    cls = getattr(mod, pl)
    j = Num.real_var('jde')
    calls = []
    saved = (Epoch.set, cls.geometric_heliocentric_position, mod.Earth.geometric_heliocentric_position, mod.Angle, mod.Sun.apparent_geocentric_position,
             mod.nutation_longitude, mod.true_obliquity, mod.ecliptical2equatorial)

    def set_summary(self, *args, **kw):
        if len(args) == 1 and not kw and core.s_isinstance(args[0], (int, float)):
            self._jde = args[0]
            return
        return saved[0](self, *args, **kw)
    rlo, rhi = RANGES[pl]

    def theory(who):
        def f(epoch, *a, **k):
            n = len(calls)
            l, b, r = Num.real_var('l%d' % n), Num.real_var('b%d' % n), Num.real_var('r%d' % n)
            if who == 'planet':
                core.CUR.assume(z3.And(r.e >= z3.RealVal(rlo), r.e <= z3.RealVal(rhi)))
            elif who == 'earth':
                core.CUR.assume(z3.And(r.e >= z3.RealVal('0.98'), r.e <= z3.RealVal('1.02')))
            calls.append((who, epoch._jde, l, b, r))
            return GenAngle(l), GenAngle(b), (r if who != 'sun' else Num.const(1.0))
        return f
    q = Epoch()

    def run():
        del calls[:]
        q._jde = j
        cls.geocentric_position(q)
        return list(calls)
    Epoch.set = set_summary
    cls.geometric_heliocentric_position = staticmethod(theory('planet'))
    mod.Earth.geometric_heliocentric_position = staticmethod(theory('earth'))
    mod.Angle = GenAngle
    mod.Sun.apparent_geocentric_position = staticmethod(theory('sun'))
    mod.nutation_longitude = lambda ep, *a, **k: GenAngle(Num.real_var('dpsi'))
    mod.true_obliquity = lambda ep, *a, **k: GenAngle(Num.real_var('eps'))
    mod.ecliptical2equatorial = lambda *a, **k: (GenAngle(Num.real_var('ra')), GenAngle(Num.real_var('dec')))
    try:
        ctx, paths = core.explore(run, [j.e >= 990557, j.e <= 3182396], trig='box', check_div0=False, timeout_ms=20000, max_paths=20, max_seconds=300)
    finally:
        (Epoch.set, cls.geometric_heliocentric_position, mod.Earth.geometric_heliocentric_position, mod.Angle, mod.Sun.apparent_geocentric_position,
         mod.nutation_longitude, mod.true_obliquity, mod.ecliptical2equatorial) = saved
    t.absorb_ctx(ctx, paths)
    bd = '%s: every epoch of -2000..4000; heliocentric distance in [%s, %s] AU, Earth in [0.98, 1.02] AU; all callees uninterpreted' % (pl, rlo, rhi)
    inp = lambda mo: {'kind': 'elong', 'planet': pl}
    t.reach += 1
    if len(paths) != 1 or paths[0].kind != 'ok':
        t.ob('%s.geocentric_position: one path through the whole method' % pl, 'unknown', 0, bd)
        t.notes.append('%s full run: %r' % (pl, [(p.kind, repr(p.exc)) for p in paths][:3]))
        return t
    p = paths[0]
    cl = p.val
    suns = [c for c in cl if c[0] == 'sun']
    pcs = [c for c in cl if c[0] == 'planet']
    ecs = [c for c in cl if c[0] == 'earth']
    if len(suns) != 1 or len(pcs) != 2 or len(ecs) != 1:
        t.ob('%s: the Sun is asked for once, the planet twice, the Earth once' % pl, 'unknown', 0, bd)
        return t
    je = j.e
    se = core.lift(suns[0][1]).re()
    D = (je - core.lift(pcs[1][1]).re()) / z3.RealVal('0.0057755183')
    r1, r0 = pcs[0][4].e, ecs[0][4].e
    tri = [D >= r1 - r0, D <= r1 + r0]      # triangle inequality for the true difference vector (not derivable under the box abstraction)
    lim = z3.RealVal('0.0196')                # 0.02 degree at 1.02 degree/day
    known = [k_ for k_ in harness.load_known() if k_.get('property') == PID and k_.get('status') == 'known' and k_.get('planet') == pl]
    name = 'the Sun\'s apparent position is taken within 0.0196 day (0.02 degree) of the caller\'s epoch'
    if known:
        # recorded finding: it must still be there for EVERY admissible distance (then it is reported as KNOWN-FINDING after replay)
        t.decide(ctx, p, 'recorded finding still present: the Sun is taken more than 0.0196 day from the caller\'s epoch@' + pl,
                 z3.And(*(tri + [z3.Or(je - se > lim, se - je > lim)])), 'C09.elong', inp, 'elongation against the Sun at another epoch', bd, extra=(), timeout_ms=60000, retry=False)
    else:
        t.decide(ctx, p, name + '@' + pl, z3.And(*(tri + [z3.Or(je - se > lim, se - je > lim)])), 'C09.elong', inp, 'elongation against the Sun at another epoch', bd,
                 timeout_ms=60000, retry=False)
    t.notes.append('triangle inequality |r - r0| <= Delta <= r + r0 assumed for the difference vector (true for genuine sines/cosines)')
    return t


def task_minor(branch):
    """Minor.geocentric_position up to the second `zeta = z + zs` (cut from the AST) on one concrete orbit per branch
    (elliptic e = 0.5, near-parabolic e = 0.99, parabolic e = 1), symbolic epoch, Kepler solver / near-parabolic solver /
    Sun's coordinates uninterpreted.  The second pass must place the body at  epoch - T - tau,  tau = 0.0057755183 * delta."""
    t = harness.Task('Minor.geocentric_position (%s)' % branch)
    mod = loader.mod('Minor')
    AngleR = loader.mod('Angle').Angle
    E = loader.mod('Epoch')
    Epoch = E.Epoch
    ecc = {'elliptic': 0.5, 'near-parabolic': 0.99, 'parabolic': 1.0}[branch]
    qv, T0 = 1.25, 2450917.9358
    body = mod.Minor(qv, ecc, AngleR(104.69219), AngleR(222.10887), AngleR(1.32431), Epoch(T0))
    try:
        head, _src = slicer.head_until('Minor', 'Minor.geocentric_position', 'zeta = z + zs', 'self, epoch', '(xi, eta, zeta, delta, tau, t_peri, xs, ys, zs)')
    except core.EngineError as ex:
        t.ob('Minor.geocentric_position: second pass found', 'unknown', 0, str(ex))
        return t
    j = Num.real_var('jde')
    calls = []
    saved = (Epoch.set, mod.Angle, mod.kepler_equation, mod.Minor._near_parabolic, mod.Sun.rectangular_coordinates_j2000)

    def set_summary(self, *args, **kw):
        if len(args) == 1 and not kw and core.s_isinstance(args[0], (int, float)):
            self._jde = args[0]
            return
        return saved[0](self, *args, **kw)

    def kep(e_, m_):
        n_ = len(calls)
        ee, v = Num.real_var('E%d' % n_), Num.real_var('v%d' % n_)
        calls.append(('kepler', m_.v if isinstance(m_, GenAngle) else m_, ee, v))
        return GenAngle(ee), GenAngle(v)

    def nearp(self_, tp):
        n_ = len(calls)
        v, rr = Num.real_var('v%d' % n_), Num.real_var('rr%d' % n_)
        core.CUR.assume(rr.e > 0)
        calls.append(('nearp', tp, v, rr))
        return GenAngle(v), rr

    def sunxyz(ep):
        xs, ys, zs = Num.real_var('xs'), Num.real_var('ys'), Num.real_var('zs')
        calls.append(('sun', ep._jde, xs, ys, zs))
        return xs, ys, zs
    q = Epoch()
    S, C, AT = core.MATH['sin'], core.MATH['cos'], core.MATH['atan']

    def spec_vec(v_deg, rr):
        wr = body._w.rad()
        vr = v_deg * Num.const(RAD)
        return (rr * body._am * S(body._aa + wr + vr), rr * body._bm * S(body._bb + wr + vr), rr * body._cm * S(body._cc + wr + vr))

    def run():
        del calls[:]
        q._jde = j
        out = head(body, q)
        xi, eta, zeta, delta, tau, t_peri, xs, ys, zs = out
        want_tp = j - T0 - Num.const(0.0057755183) * delta
        if branch == 'parabolic':
            ww = (0.03649116245 * want_tp) / (qv * core.MATH["sqrt"](qv))
            sp = ww / 3.0
            s_ = (2.0 * sp * sp * sp + ww) / (3.0 * (sp * sp + 1.0))
            v_deg = (2.0 * AT(s_)) * Num.const(1.0 / RAD)
            sv = spec_vec(v_deg, qv * (1.0 + s_ * s_))
        elif branch == 'elliptic':
            ks = [c for c in calls if c[0] == 'kepler']
            ee2, v2 = ks[-1][2], ks[-1][3]
            sv = spec_vec(v2, body._a * (1.0 - ecc * C(ee2 * Num.const(RAD))))
        else:
            ns = [c for c in calls if c[0] == 'nearp']
            sv = spec_vec(ns[-1][2], ns[-1][3])
        return out, list(calls), sv, want_tp, q._jde
    Epoch.set = set_summary
    mod.Angle = GenAngle
    # the Newton iteration of the parabolic branch is cut after its first step: its exit test |s - sp| > tol is concretised to False
    import builtins
    mod.__dict__['abs'] = lambda x: builtins.abs(x) if not isinstance(x, Num) else 0.0
    mod.kepler_equation = kep
    mod.Minor._near_parabolic = nearp
    mod.Sun.rectangular_coordinates_j2000 = staticmethod(sunxyz)
    try:
        ctx, paths = core.explore(run, [j.e >= T0 - 18262, j.e <= T0 + 18262], trig='box', check_div0=False, timeout_ms=20000, max_paths=20, max_seconds=300)
    finally:
        (Epoch.set, mod.Angle, mod.kepler_equation, mod.Minor._near_parabolic, mod.Sun.rectangular_coordinates_j2000) = saved
        mod.__dict__.pop('abs', None)
    t.absorb_ctx(ctx, paths)
    bd = 'Minor, %s branch (e = %g, q = %g AU, one orientation): every epoch within 50 years of perihelion; solvers and Sun coordinates uninterpreted; sin/cos/atan boxed' % (branch, ecc, qv)
    inp = lambda mo: {'kind': 'minor', 'branch': branch}
    t.reach += 1
    if len(paths) != 1 or paths[0].kind != 'ok':
        t.ob('Minor.geocentric_position (%s): one path' % branch, 'unknown', 0, bd)
        t.notes.append('Minor %s: %r' % (branch, [(p.kind, repr(p.exc)) for p in paths][:3]))
        return t
    p = paths[0]
    out, cl, sv, want_tp, jafter = p.val
    xi, eta, zeta, delta, tau, t_peri, xs, ys, zs = [core.lift(v).re() for v in out]
    q_ = dict(timeout_ms=60000, retry=False)
    suns = [c for c in cl if c[0] == 'sun']
    t.decide(ctx, p, 'Minor (%s): the Sun\'s coordinates are taken once, at the caller\'s epoch' % branch,
             z3.BoolVal(len(suns) != 1) if len(suns) != 1 else core.lift(suns[0][1]).re() != j.e, 'C09.minor', inp, 'Sun epoch', bd, **q_)
    wt = core.lift(want_tp).re()
    t.decide(ctx, p, 'Minor (%s): second pass at epoch - T - tau, tau = 0.0057755183 * delta' % branch,
             z3.Or(t_peri != wt, tau != z3.RealVal('0.0057755183') * delta), 'C09.minor', inp, 'retarded time', bd, **q_)
    if branch == 'elliptic':
        ks = [c for c in cl if c[0] == 'kepler']
        arg = z3.BoolVal(True) if len(ks) != 2 else core.lift(ks[1][1]).re() != wt * core.lift(Num.const(body._n)).re()
        t.decide(ctx, p, 'Minor (elliptic): Kepler\'s equation is solved again for the mean anomaly at the retarded time', arg, 'C09.minor', inp, 'kepler argument', bd, **q_)
    elif branch == 'near-parabolic':
        ns = [c for c in cl if c[0] == 'nearp']
        arg = z3.BoolVal(True) if len(ns) != 2 else core.lift(ns[1][1]).re() != wt
        t.decide(ctx, p, 'Minor (near-parabolic): the near-parabolic solver is called again with the retarded time', arg, 'C09.minor', inp, 'solver argument', bd, **q_)
    t.decide(ctx, p, 'Minor (%s): final vector = body(retarded time) + Sun(t), component by component' % branch,
             z3.Or(*[a != core.lift(b).re() + c for a, b, c in zip((xi, eta, zeta), sv, (xs, ys, zs))]), 'C09.minor', inp, 'final vector', bd, **q_)
    t.decide(ctx, p, 'Minor (%s): the caller\'s Epoch is not shifted' % branch, core.lift(jafter).re() != j.e, 'C09.minor', inp, 'caller epoch', bd, **q_)
    t.reach += 5
    return t


def task_pluto(_):
    """Pluto.geocentric_position up to the second `zeta = z + zs`: same wiring obligations, theory and Sun coordinates uninterpreted"""
    t = harness.Task('Pluto.geocentric_position')
    mod = loader.mod('Pluto')
    E = loader.mod('Epoch')
    Epoch = E.Epoch
    try:
        head, _src = slicer.head_until('Pluto', 'Pluto.geocentric_position', 'zeta = z + zs', 'epoch', '(xi, eta, zeta, tau, xs, ys, zs)')
    except core.EngineError as ex:
        t.ob('Pluto.geocentric_position: second pass found', 'unknown', 0, str(ex))
        return t
    j = Num.real_var('jde')
    calls = []
    saved = (Epoch.set, mod.Pluto.geometric_heliocentric_position, mod.Sun.rectangular_coordinates_j2000, Epoch.year)

    def set_summary(self, *args, **kw):
        if len(args) == 1 and not kw and core.s_isinstance(args[0], (int, float)):
            self._jde = args[0]
            return
        return saved[0](self, *args, **kw)

    def theory(epoch, *a, **k):
        n = len(calls)
        l, b, r = Num.real_var('l%d' % n), Num.real_var('b%d' % n), Num.real_var('r%d' % n)
        core.CUR.assume(z3.And(r.e > 29, r.e < 50))
        calls.append(('pluto', epoch._jde, l, b, r))
        return PassAngle(l), PassAngle(b), r

    def sunxyz(ep):
        xs, ys, zs = Num.real_var('xs'), Num.real_var('ys'), Num.real_var('zs')
        calls.append(('sun', ep._jde, xs, ys, zs))
        return xs, ys, zs
    q = Epoch()
    S, C = core.MATH['sin'], core.MATH['cos']
    sine, cose = 0.397777156, 0.917482062

    def vec(c):
        _, _, l, b, r = c
        lr, br = l * Num.const(RAD), b * Num.const(RAD)
        return (r * C(lr) * C(br), r * (S(lr) * C(br) * cose - S(br) * sine), r * (S(lr) * C(br) * sine + S(br) * cose))

    def run():
        del calls[:]
        q._jde = j
        out = head(q)
        ps = [c for c in calls if c[0] == 'pluto']
        sp = (vec(ps[0]), vec(ps[-1])) if ps else None
        return out, list(calls), sp, q._jde
    Epoch.set = set_summary
    mod.Pluto.geometric_heliocentric_position = staticmethod(theory)
    mod.Sun.rectangular_coordinates_j2000 = staticmethod(sunxyz)
    Epoch.year = lambda self: 2000.0           # the 1885-2099 guard is not the subject here
    try:
        ctx, paths = core.explore(run, [j.e >= 2409543, j.e <= 2488070], trig='box', check_div0=False, timeout_ms=20000, max_paths=20, max_seconds=300)
    finally:
        (Epoch.set, mod.Pluto.geometric_heliocentric_position, mod.Sun.rectangular_coordinates_j2000, Epoch.year) = saved
    t.absorb_ctx(ctx, paths)
    bd = 'Pluto: every epoch 1885..2099; position theory and Sun coordinates uninterpreted; sin/cos boxed'
    inp = lambda mo: {'kind': 'pluto'}
    t.reach += 1
    if len(paths) != 1 or paths[0].kind != 'ok':
        t.ob('Pluto.geocentric_position: one path', 'unknown', 0, bd)
        t.notes.append('Pluto: %r' % [(p.kind, repr(p.exc)) for p in paths][:3])
        return t
    p = paths[0]
    out, cl, sp, jafter = p.val
    xi, eta, zeta, tau, xs, ys, zs = [core.lift(v).re() for v in out]
    ps = [c for c in cl if c[0] == 'pluto']
    suns = [c for c in cl if c[0] == 'sun']
    q_ = dict(timeout_ms=60000, retry=False)
    if len(ps) != 2 or len(suns) != 1:
        t.ob('Pluto: the theory is evaluated twice and the Sun once', 'sat', 0, bd)
        t.cand('C09.pluto', inp(None), 'calls %r' % [c[0] for c in cl])
        return t
    je = j.e
    t.decide(ctx, p, 'Pluto: Sun coordinates and first position at the caller\'s epoch', z3.Or(core.lift(suns[0][1]).re() != je, core.lift(ps[0][1]).re() != je),
             'C09.pluto', inp, 'epochs', bd, **q_)
    v1, v2 = sp
    d2 = sum(((core.lift(a).re() + b) * (core.lift(a).re() + b) for a, b in zip(v1, (xs, ys, zs))), z3.RealVal(0))
    tt = je - core.lift(ps[1][1]).re()
    k = z3.RealVal('0.0057755183')
    t.decide(ctx, p, 'Pluto: second position at epoch - 0.0057755183 * Delta (1 %), Delta = |Pluto(t) + Sun(t)|',
             z3.Or(tt < 0, tt * tt < z3.RealVal('0.9801') * k * k * d2, tt * tt > z3.RealVal('1.0201') * k * k * d2), 'C09.pluto', inp, 'light-time', bd, **q_)
    t.decide(ctx, p, 'Pluto: final vector = Pluto(t - tau) + Sun(t), component by component',
             z3.Or(*[a != core.lift(b).re() + c for a, b, c in zip((xi, eta, zeta), v2, (xs, ys, zs))]), 'C09.pluto', inp, 'final vector', bd, **q_)
    t.decide(ctx, p, 'Pluto: the caller\'s Epoch is not shifted', core.lift(jafter).re() != je, 'C09.pluto', inp, 'caller epoch', bd, **q_)
    t.reach += 4
    return t


def dispatch(job):
    k, a = job
    return {'wiring': task_planet, 'sun': task_sun_epoch, 'minor': task_minor, 'pluto': task_pluto}[k](a)


def main(tier):
    loader.install()
    chk = harness.Check(PID, tier)
    chk.replays = {'C09.wiring': REPLAY, 'C09.elong': REPLAY, 'C09.minor': MINOR_REPLAY, 'C09.pluto': PLUTO_REPLAY}
    chk.functions = ['%s.geocentric_position (head, up to the second difference vector; whole method for the call epochs)' % pl for pl in PLANETS] + ['Minor.geocentric_position (up to the second zeta)', 'Pluto.geocentric_position (up to the second zeta)']
    chk.run(dispatch, [('wiring', pl) for pl in PLANETS] + [('sun', pl) for pl in PLANETS] + [('minor', b) for b in ('elliptic', 'near-parabolic', 'parabolic')] + [('pluto', 0)], 'light-time wiring of 7 planets; epoch of the Sun in the elongation')
    chk.bounds = {'epoch': 'every JDE of years -2000..4000 (symbolic real)', 'planets': PLANETS}
    chk.stubs = ['<Planet>.geometric_heliocentric_position and Earth.geometric_heliocentric_position -> uninterpreted theory: fresh symbolic (l, b, r) per call, epoch recorded',
                 'sin/cos -> boxes in [-1, 1] keyed by their argument; sqrt -> fresh non-negative real with its square; Epoch(number) -> stores the JDE (C02)']
    chk.outside = ['everything after the difference vector: aberration, FK5, nutation, conversion to equatorial coordinates (C05 decides ecliptical2equatorial itself), elongation value and its limits for Mercury / Venus',
                   'Pluto\'s 1885-2099 guard; minor bodies on other orbits than the three concrete ones; later steps of the parabolic Newton iteration', 'every clause on VALUES of the series']
    chk.assumptions = ['real arithmetic; box abstraction: equal arguments give the same box, so the component identities are polynomial identities in the boxes']
    return chk.finish()
