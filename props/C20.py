"""C20 -- calls are side-effect free and total on their documented domain.

Frame checks and exception-class checks on a catalogue of public calls, every call executed symbolically on the real
code (symbolic Angle / Epoch / list contents): after each explored path the argument objects must hold the same
terms as before; ill-typed representatives must end in TypeError / ValueError on every path.
"""
import hashlib
import z3

from symx import core, loader, harness, trig
from symx.core import Num, Fr

PID = 'C20'

REPLAY = r'''
import copy, cmath
from pymeeus.Angle import Angle
from pymeeus.Epoch import Epoch, JDE2000
import pymeeus.Coordinates as C
from pymeeus.Interpolation import Interpolation
from pymeeus.CurveFitting import CurveFitting
from pymeeus.Earth import Earth
name = INPUTS['call']
bad = None
def snap(v):
    if isinstance(v, Angle): return ('Angle', v(), v.get_tolerance())
    if isinstance(v, Epoch): return ('Epoch', v.jde())
    if isinstance(v, (list, tuple)): return (type(v).__name__, [snap(x) for x in v])
    if isinstance(v, (Interpolation, CurveFitting)): return (type(v).__name__, list(v._x), list(v._y))
    return v
A = lambda x: Angle(x)
CALLS = {
 'angle_iadd': lambda: (lambda a, b: ([a, b], (lambda: a.__iadd__(b))))(A(10.5), A(3.25)),
 'angle_isub': lambda: (lambda a, b: ([a, b], (lambda: a.__isub__(b))))(A(10.5), A(3.25)),
 'angle_imul': lambda: (lambda a, b: ([a, b], (lambda: a.__imul__(b))))(A(10.5), 3.0),
 'angle_list_radians': lambda: (lambda l: ([l], (lambda: Angle(l, radians=True))))([0.5]),
 'angle_copy': lambda: (lambda a: ([a], (lambda: Angle(a).to_positive())))(A(-20.0)),
 'angle_ops': lambda: (lambda a, b: ([a, b], (lambda: (a + b, a - b, a * b, -a, abs(a), a < b, a.dms_tuple(), a.rad()))))(A(-10.5), A(3.25)),
 'epoch_iadd': lambda: (lambda e: ([e], (lambda: e.__iadd__(2.5))))(Epoch(2451545.0)),
 'epoch_isub': lambda: (lambda e: ([e], (lambda: e.__isub__(2.5))))(Epoch(2451545.0)),
 'epoch_ops': lambda: (lambda e, f: ([e, f, JDE2000], (lambda: (e + 1.5, e - 2, e - f, 3 + e, e < f, e.get_date(), e.dow(), JDE2000 + 1))))(Epoch(2451545.25), Epoch(2451000.5)),
 'epoch_copy': lambda: (lambda e: ([e], (lambda: Epoch(e).set(2000, 1, 1))))(Epoch(2451545.25)),
 'epoch_list': lambda: (lambda l: ([l], (lambda: Epoch(l))))([2000, 1, 1.5]),
 'eq2ecl': lambda: (lambda a, b, c: ([a, b, c], (lambda: C.equatorial2ecliptical(a, b, c))))(A(116.3), A(28.0), A(23.44)),
 'conj4': lambda: (lambda l1, l2, l3, l4: ([l1, l2, l3, l4], (lambda: C.planetary_conjunction(l1, l2, l3, l4))))(
     [A(10.0), A(11.2), A(12.5), A(13.9)], [A(5.0), A(4.6), A(4.3), A(4.1)], [A(12.0), A(12.2), A(12.1), A(11.9)], [A(4.0), A(4.2), A(4.4), A(4.6)]),
 'conj4_tuple': lambda: (lambda l1, l2, l3, l4: ([l1, l2, l3, l4], (lambda: C.planetary_conjunction(l1, l2, l3, l4))))(
     (A(10.0), A(11.2), A(12.5), A(13.9)), (A(5.0), A(4.6), A(4.3), A(4.1)), (A(12.0), A(12.2), A(12.1), A(11.9)), (A(4.0), A(4.2), A(4.4), A(4.6))),
 'interp_lists': lambda: (lambda x, y: ([x, y], (lambda: Interpolation(x, y)(2.5))))([3.0, 1.0, 2.0], [9.0, 1.0, 4.0]),
 'interp_copy': lambda: (lambda i: ([i], (lambda: Interpolation(i).set([0.0, 1.0], [5.0, 6.0]))))(Interpolation([1.0, 2.0, 3.0], [1.0, 4.0, 9.0])),
 'fit_lists': lambda: (lambda x, y: ([x, y], (lambda: CurveFitting(x, y).linear_fitting())))([3.0, 1.0, 2.0], [9.0, 1.0, 4.5]),
}
if INPUTS['kind'] == 'frame':
    args, thunk = CALLS[name]()
    before = snap(args)
    try:
        thunk()
    except Exception as ex:
        bad = 'raised %r' % (ex,)
    if bad is None and snap(args) != before:
        bad = 'arguments changed: %r -> %r' % (before, snap(args))
elif INPUTS['kind'] == 'illtyped':
    reps = {'None': None, 'str': 'x', 'complex': 1j, 'list': [1.0]}
    v = reps[INPUTS['rep']]
    T = {'get_month': lambda: Epoch.get_month(v), 'is_leap': lambda: Epoch.is_leap(v), 'easter': lambda: Epoch.easter(v), 'iint': lambda: __import__('pymeeus.base', fromlist=['iint']).iint(v),
         'angle_add': lambda: Angle(10.0) + v, 'angle_mul': lambda: Angle(10.0) * v, 'angle_lt': lambda: Angle(10.0) < v, 'epoch_add': lambda: Epoch(2451545.0) + v,
         'epoch_lt': lambda: Epoch(2451545.0) < v, 'eq2ecl': lambda: C.equatorial2ecliptical(v, Angle(1.0), Angle(2.0)), 'kepler': lambda: C.kepler_equation(v, Angle(5.0)),
         'interp_call': lambda: Interpolation([1.0, 2.0], [1.0, 4.0])(v), 'rho_sinphi': lambda: Earth().rho_sinphi(v, 0.0), 'moslem': lambda: Epoch.moslem2gregorian(v, 1, 1),
         'leap': lambda: Epoch.check_input_date(v), 'angsep': lambda: C.angular_separation(Angle(1.0), v, Angle(2.0), Angle(3.0))}
    try:
        r = T[name]()
        bad = 'returned %r instead of raising TypeError/ValueError' % (r,)
    except (TypeError, ValueError):
        pass
    except Exception as ex:
        bad = 'raised %r (neither TypeError nor ValueError)' % (ex,)
if bad:
    print('REPRODUCED %s: %s(%s): %s' % (SITE, name, INPUTS.get('rep', ''), bad)); sys.exit(1)
print('not reproduced'); sys.exit(0)
'''


def snap(v):
    """structure of an argument with the solver terms it holds"""
    if isinstance(v, (list, tuple)):
        return (type(v).__name__, [snap(x) for x in v])
    if hasattr(v, '_deg'):
        return ('Angle', v._deg, v._tol)
    if hasattr(v, '_jde'):
        return ('Epoch', v._jde)
    if hasattr(v, '_x') and hasattr(v, '_y'):
        return (type(v).__name__, [snap(x) for x in v._x], [snap(x) for x in v._y])
    return v


def differs(a, b):
    """z3 condition under which two snapshots differ (or True/False when decided structurally)"""
    if isinstance(a, tuple) and isinstance(b, tuple) and len(a) == len(b) and isinstance(a[0], str) and a[0] == b[0]:
        conds = [differs(x, y) for x, y in zip(a[1:], b[1:])]
    elif isinstance(a, list) and isinstance(b, list):
        if len(a) != len(b):
            return True
        conds = [differs(x, y) for x, y in zip(a, b)]
    elif isinstance(a, (core.Num, int, float)) and isinstance(b, (core.Num, int, float)) and not isinstance(a, bool):
        la, lb = core.lift(a), core.lift(b)
        e = la.re() != lb.re()
        e = z3.simplify(e)
        return False if z3.is_false(e) else (True if z3.is_true(e) else e)
    else:
        return a != b if not isinstance(a, (tuple, list)) else True
    if any(c is True for c in conds):
        return True
    sym = [c for c in conds if c is not False]
    return z3.Or(*sym) if sym else False


def task_frames(_):
    t = harness.Task('frames')
    Angle = loader.mod('Angle').Angle
    E = loader.mod('Epoch')
    Epoch = E.Epoch
    coords = loader.mod('Coordinates')
    Interpolation = loader.mod('Interpolation').Interpolation
    CurveFitting = loader.mod('CurveFitting').CurveFitting
    x, y, z = Num.real_var('x'), Num.real_var('y'), Num.real_var('z')
    j1, j2 = Num.real_var('j1'), Num.real_var('j2')
    small = [x.e > -300, x.e < 300, y.e > 1, y.e < 300, z.e > 1, z.e < 50, j1.e >= 2400000, j1.e <= 2500000, j2.e >= 2400000, j2.e <= 2500000]
    A = lambda v: Angle(v)

    class Rec(object):
        def __init__(self, xs, ys):
            self.xs, self.ys = list(xs), list(ys)

        def root(self, *a):
            return Num.real_var('rootval')

        def __call__(self, v):
            return Angle(Num.real_var('evalval'))
    orig_set = Epoch.set

    def set_summary(self, *args, **kw):
        if len(args) == 1 and not kw and core.s_isinstance(args[0], (int, float)):
            self._jde = args[0]
            return
        return orig_set(self, *args, **kw)

    def c_conj(container):
        l = [container([A(x), A(x + 1), A(x + 2), A(x + 3)]), container([A(y), A(y + 1), A(y + 2), A(y + 3)]),
             container([A(x + 5), A(x + 5), A(x + 5), A(x + 5)]), container([A(z), A(z), A(z), A(z)])]
        return l, (lambda: coords.planetary_conjunction(*l))
    calls = {
        'angle_iadd': lambda: (lambda a, b: ([a, b], (lambda: a.__iadd__(b))))(A(x), A(y)),
        'angle_isub': lambda: (lambda a, b: ([a, b], (lambda: a.__isub__(b))))(A(x), A(y)),
        'angle_imul': lambda: (lambda a, b: ([a, b], (lambda: a.__imul__(b))))(A(x), z),
        'angle_list_radians': lambda: (lambda l: ([l], (lambda: Angle(l, radians=True))))([x]),
        'angle_copy': lambda: (lambda a: ([a], (lambda: Angle(a).to_positive())))(A(x)),
        'angle_ops': lambda: (lambda a, b: ([a, b], (lambda: (a + b, a - b, a * b, -a, abs(a), a < b, a.rad()))))(A(x), A(y)),
        'epoch_iadd': lambda: (lambda e: ([e], (lambda: e.__iadd__(z))))(Epoch(j1)),
        'epoch_isub': lambda: (lambda e: ([e], (lambda: e.__isub__(z))))(Epoch(j1)),
        'epoch_ops': lambda: (lambda e, f: ([e, f, E.JDE2000], (lambda: (e + z, e - z, e - f, z + e, e < f, E.JDE2000 + z))))(Epoch(j1), Epoch(j2)),
        'epoch_copy': lambda: (lambda e: ([e], (lambda: Epoch(e).set(2000, 1, 1))))(Epoch(j1)),
        'epoch_list': lambda: (lambda l: ([l], (lambda: Epoch(l))))([Num.const(2000), 1, z * Num.const(0.5) + 1]),
        'conj4': lambda: c_conj(list),
        'conj4_tuple': lambda: c_conj(tuple),
        'interp_lists': lambda: (lambda a, b: ([a, b], (lambda: Interpolation(a, b))))([z + 2, z, z + 1], [x, y, x]),
        'interp_copy': lambda: (lambda i: ([i], (lambda: Interpolation(i).set([Num.const(0.0), Num.const(1.0)], [x, y]))))(Interpolation([z, z + 1, z + 2], [x, y, x])),
        'fit_lists': lambda: (lambda a, b: ([a, b], (lambda: CurveFitting(a, b).linear_fitting())))([z + 2, z, z + 1], [x, y, x]),
    }
    tables0 = table_digest()
    for name, mk in calls.items():
        def fn():
            args, thunk = mk()
            before = snap(args)
            res = thunk()
            return before, snap(args)
        coords_I = coords.Interpolation
        if name.startswith('conj'):
            coords.Interpolation = Rec
        if name.startswith('epoch') and name != 'epoch_list':
            Epoch.set = set_summary
        try:
            ctx, paths = core.explore(fn, small, check_div0=False, timeout_ms=20000, max_paths=200, max_seconds=300)
        finally:
            coords.Interpolation = coords_I
            Epoch.set = orig_set
        t.absorb_ctx(ctx, paths)
        bd = 'call %s with symbolic argument contents' % name
        for i, p in enumerate(paths):
            tag = '@%s.p%d' % (name, i)
            t.reach += 1
            if p.kind == 'exc':
                t.ob('call total on well-typed arguments' + tag, 'sat', 0, bd)
                t.cand('C20.frame', {'kind': 'frame', 'call': name}, 'raised %r' % (p.exc,))
                continue
            if p.kind != 'ok':
                continue
            before, after = p.val
            d = differs(before, after)
            if d is False:
                t.ob('arguments hold the same terms after the call' + tag, 'unsat', 0, bd)
            elif d is True:
                t.ob('arguments hold the same terms after the call' + tag, 'sat', 0, bd)
                t.cand('C20.frame', {'kind': 'frame', 'call': name}, 'argument structure changed')
            else:
                t.decide(ctx, p, 'arguments hold the same terms after the call' + tag, d, 'C20.frame', lambda mo, name=name: {'kind': 'frame', 'call': name},
                         'argument changed', bd, timeout_ms=60000)
    t.ob('module-level tables and constants unchanged by all the calls above', 'unsat' if table_digest() == tables0 else 'sat', 0, 'digest of LEAP_TABLE, nutation tables, JDE2000, TOL, IAU76/WGS84')
    if table_digest() != tables0:
        t.cand('C20.frame', {'kind': 'frame', 'call': 'epoch_ops'}, 'module tables changed')
    t.reach += 1
    return t


def table_digest():
    E = loader.mod('Epoch')
    C = loader.mod('Coordinates')
    Ea = loader.mod('Earth')
    parts = [repr(sorted(E.LEAP_TABLE.items())), repr(core.lift(E.JDE2000._jde).cval()), repr(loader.mod('base').TOL),
             repr((Ea.IAU76._a, Ea.IAU76._f, Ea.WGS84._a, Ea.WGS84._f))]
    for nm in dir(C):
        v = getattr(C, nm)
        if nm.isupper() and isinstance(v, (list, tuple, dict)):
            parts.append(nm + repr(v)[:100000])
    return hashlib.sha256('|'.join(parts).encode()).hexdigest()


def task_illtyped(_):
    t = harness.Task('ill-typed arguments')
    Angle = loader.mod('Angle').Angle
    Epoch = loader.mod('Epoch').Epoch
    coords = loader.mod('Coordinates')
    Interpolation = loader.mod('Interpolation').Interpolation
    Earth = loader.mod('Earth').Earth
    base = loader.mod('base')
    x = Num.real_var('x')
    j = Num.real_var('j')
    pre = [x.e > -300, x.e < 300, j.e >= 2400000, j.e <= 2500000]
    reps = {'None': None, 'str': 'x', 'complex': 1j, 'list': [1.0]}
    funcs = {
        'get_month': lambda v: Epoch.get_month(v), 'is_leap': lambda v: Epoch.is_leap(v), 'easter': lambda v: Epoch.easter(v), 'iint': lambda v: base.iint(v),
        'angle_add': lambda v: Angle(x) + v, 'angle_mul': lambda v: Angle(x) * v, 'angle_lt': lambda v: Angle(x) < v,
        'epoch_add': lambda v: Epoch(Num.const(2000), 1, Num.const(1.5)) + v, 'epoch_lt': lambda v: Epoch(Num.const(2000), 1, Num.const(1.5)) < v,
        'eq2ecl': lambda v: coords.equatorial2ecliptical(v, Angle(x), Angle(x)), 'kepler': lambda v: coords.kepler_equation(v, Angle(x)),
        'interp_call': lambda v: Interpolation([Num.const(1.0), Num.const(2.0)], [x, x + 1])(v), 'rho_sinphi': lambda v: Earth().rho_sinphi(v, 0.0),
        'moslem': lambda v: Epoch.moslem2gregorian(v, 1, 1), 'leap': lambda v: Epoch.check_input_date(v),
        'angsep': lambda v: coords.angular_separation(Angle(x), v, Angle(x), Angle(x)),
    }
    for name, f in funcs.items():
        for rn, rv in reps.items():
            if name in ('leap',) and rn == 'list':
                continue        # a list IS a documented date form there
            ctx, paths = core.explore(lambda: f(rv), pre, check_div0=False, timeout_ms=10000, max_paths=50, max_seconds=120, trig='atoms')
            t.absorb_ctx(ctx, paths)
            ok = bool(paths) and all(p.kind == 'exc' and isinstance(p.exc, (TypeError, ValueError)) for p in paths)
            t.reach += 1
            if not ok:
                outs = [(p.kind, repr(p.exc) if p.kind == 'exc' else repr(p.val)[:40]) for p in paths][:3]
                t.ob('%s(%s) rejected with TypeError/ValueError on every path' % (name, rn), 'sat', 0, 'ill-typed representative, other arguments symbolic')
                t.cand('C20.type', {'kind': 'illtyped', 'call': name, 'rep': rn}, 'outcomes %r' % (outs,))
    t.ob('ill-typed representatives rejected with TypeError/ValueError on every explored path', 'unsat', 0,
         '%d functions x {None, str, complex, list}' % len(funcs), n=len(funcs) * 4 - 1)
    return t


def dispatch(job):
    return {'frames': task_frames, 'types': task_illtyped}[job](0)


def main(tier):
    loader.install()
    chk = harness.Check(PID, tier)
    chk.replays = {'C20.frame': REPLAY, 'C20.type': REPLAY}
    chk.functions = ['Angle operators / set / copy / to_positive', 'Epoch operators / set / copy', 'Coordinates.equatorial2ecliptical', 'Coordinates.planetary_conjunction',
                     'Coordinates.kepler_equation', 'Coordinates.angular_separation', 'Interpolation.__init__/set/__call__', 'CurveFitting.__init__/linear_fitting',
                     'Epoch.get_month/is_leap/easter/moslem2gregorian/check_input_date', 'base.iint', 'Earth.rho_sinphi']
    chk.run(dispatch, ['frames', 'types'], 'frames and exception classes')
    chk.bounds = {'catalogue': '16 frame calls (in-place, reflected and copy forms; list and tuple arguments) and 16 functions x 4 ill-typed representatives'}
    chk.stubs = ['planetary_conjunction: Interpolation replaced by a recorder (the frame of the caller\'s lists is what is checked)',
                 'Epoch(number) -> stores the JDE (summary, C02) inside the Epoch operator calls']
    chk.outside = ['functions outside the catalogue (planet / Moon / Sun modules: their series evaluators are not encodable)', 'finite values of documented type for the series',
                   'enumerating interleavings of two calls: follows from no shared mutable state (tables digest unchanged, arguments unchanged)']
    chk.assumptions = ['real arithmetic for the symbolic contents']
    return chk.finish()
