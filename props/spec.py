"""Independent specifications (written from the calendar definitions, not from the code)."""
import z3

# ---- python-int versions (also pasted into replay scripts via SPEC_SRC)
SPEC_SRC = r'''
def is_leap_civil(y):
    """leap rule in force: Julian through 1581, Gregorian from 1582 (astronomical year numbering)"""
    if y < 1582:
        return y % 4 == 0
    return y % 4 == 0 and (y % 100 != 0 or y % 400 == 0)

def month_len(y, m):
    if m == 2:
        return 29 if is_leap_civil(y) else 28
    return [31, 28, 31, 30, 31, 30, 31, 31, 30, 31, 30, 31][m - 1]

def jdn_julian(y, m, d):
    a = (14 - m) // 12
    yy = y + 4800 - a
    mm = m + 12 * a - 3
    return d + (153 * mm + 2) // 5 + 365 * yy + yy // 4 - 32083

def jdn_gregorian(y, m, d):
    a = (14 - m) // 12
    yy = y + 4800 - a
    mm = m + 12 * a - 3
    return d + (153 * mm + 2) // 5 + 365 * yy + yy // 4 - yy // 100 + yy // 400 - 32045

def is_julian_date(y, m, d):
    return (y, m, d) < (1582, 10, 15)

def jdn_civil(y, m, d):
    """Julian Day Number at noon of a civil date (Julian calendar through 4 Oct 1582)"""
    return jdn_julian(y, m, d) if is_julian_date(y, m, d) else jdn_gregorian(y, m, d)

def valid_civil(y, m, d):
    if not (1 <= m <= 12 and 1 <= d <= month_len(y, m)):
        return False
    if y == 1582 and m == 10 and 5 <= d <= 14:
        return False
    return True

def next_civil(y, m, d):
    if (y, m, d) == (1582, 10, 4):
        return (1582, 10, 15)
    if d < month_len(y, m):
        return (y, m, d + 1)
    if m < 12:
        return (y, m + 1, 1)
    return (y + 1, 1, 1)
'''
exec(SPEC_SRC)


# ---- z3 versions over Int terms (month may be a python int or a term)
def zI(v):
    return z3.IntVal(v) if isinstance(v, int) else v


def z_is_leap_civil(y):
    return z3.If(y < 1582, y % 4 == 0, z3.And(y % 4 == 0, z3.Or(y % 100 != 0, y % 400 == 0)))


def z_month_len(y, m):
    if isinstance(m, int):
        if m == 2:
            return z3.If(z_is_leap_civil(y), 29, 28)
        return z3.IntVal([31, 28, 31, 30, 31, 30, 31, 31, 30, 31, 30, 31][m - 1])
    r = z3.IntVal(31)
    for k, n in [(11, 30), (9, 30), (6, 30), (4, 30)]:
        r = z3.If(m == k, n, r)
    return z3.If(m == 2, z3.If(z_is_leap_civil(y), 29, 28), r)


def z_jdn(y, m, d, greg):
    y, m, d = zI(y), zI(m), zI(d)
    a = (14 - m) / 12
    yy = y + 4800 - a
    mm = m + 12 * a - 3
    base = d + (153 * mm + 2) / 5 + 365 * yy + yy / 4
    return (base - yy / 100 + yy / 400 - 32045) if greg else (base - 32083)


def z_is_julian_date(y, m, d):
    y, m, d = zI(y), zI(m), zI(d)
    return z3.Or(y < 1582, z3.And(y == 1582, z3.Or(m < 10, z3.And(m == 10, d < 15))))


def z_jdn_civil(y, m, d):
    return z3.If(z_is_julian_date(y, m, d), z_jdn(y, m, d, False), z_jdn(y, m, d, True))


def z_valid_civil(y, m, d):
    y, m, d = zI(y), zI(m), zI(d)
    return z3.And(m >= 1, m <= 12, d >= 1, d <= z_month_len(y, m if not z3.is_int_value(m) else m.as_long()),
                  z3.Not(z3.And(y == 1582, m == 10, d >= 5, d <= 14)))
