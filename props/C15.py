"""C15 -- Moon: the selection skeleton of the lunar event finders, their target validation and totality, and the
illuminated-fraction identity.

Real code executed symbolically: Moon.moon_phase / moon_perigee_apogee / moon_passage_nodes / moon_maximum_declination for
every target string, with the query reduced to its fractional year (symbolic real), sin/cos boxed, Angle a pass-through;
Moon.illuminated_fraction_disk in box mode.  Same method as C13: result linear in the boxes, univariate amplitude bounds.
"""
import os
import z3

from symx import core, loader, harness
from symx.core import Num, Fr
from props.C13 import PassAngle

PID = 'C15'
# Meeus chapters 49-52: the month count is k ~ (year - c0) * rate (+ the target's fraction of a month)
RATES = {'moon_phase': ('2000', '12.3685'), 'moon_perigee_apogee': ('1999.97', '13.2555'), 'moon_passage_nodes': ('2000.05', '13.4223'),
         'moon_maximum_declination': ('2000.03', '13.3686')}
# years where the amplitude bound is too coarse to decide the 1.6-month clause and no excess was found on the real code (outside the claim)
GRAY = {('moon_perigee_apogee', 'apogee'): (3802, 3999)}
FINDERS = {'moon_phase': ['new', 'first', 'full', 'last'], 'moon_perigee_apogee': ['perigee', 'apogee'],
           'moon_passage_nodes': ['ascending', 'descending'], 'moon_maximum_declination': ['northern', 'southern']}

REPLAY = r'''
from pymeeus.Epoch import Epoch
from pymeeus.Moon import Moon
fn = getattr(Moon, INPUTS['func']); target = INPUTS.get('target', '')
bad = None
def jde_of(r):
    return (r[0] if isinstance(r, tuple) else r).jde()
if INPUTS['kind'] == 'target':
    try:
        fn(Epoch(2000, 1, 1.0), target=INPUTS['bad_target'])
        bad = 'invalid target %r accepted' % INPUTS['bad_target']
    except ValueError:
        pass
    except Exception as ex:
        bad = 'invalid target: %r' % (ex,)
elif INPUTS['kind'] == 'rate':
    target = ''
    for yy in range(-2000, 4000, 3):
        ea, eb = Epoch(yy, 3, 1.0), Epoch(yy, 3, 11.0)
        if INPUTS['func'] == 'longitude_true_ascending_node':
            d = (float(Moon.longitude_true_ascending_node(ea)) - float(Moon.longitude_mean_ascending_node(ea)) + 180.0) % 360.0 - 180.0
            if abs(d) > INPUTS['tol']:
                bad = 'true - mean node = %r degrees at year %d' % (d, yy); break
        else:
            d = (float(fn(eb)) - float(fn(ea)) + 180.0) % 360.0 - 180.0
            cent = 10.0 / 36525.0
            want = ((INPUTS['rate'] * cent) + 180.0) % 360.0 - 180.0
            if abs(d - want) > INPUTS['tol'] * cent + 1e-9:
                bad = 'advance over 10 days %r degrees, secular rate gives %r (year %d)' % (d, want, yy); break
elif INPUTS['kind'] == 'distance':
    # the solver's query first; then (the correction bound is an over-approximation) every quarter day of that calendar year and its neighbours
    b, Y, doy = INPUTS['b'], INPUTS['Y'], INPUTS['doy']
    qs = [(Y, doy)] + [(Y + dy, 1 + 0.25 * i) for dy in (0, -1, 1) for i in range(4 * 365) if -2000 <= Y + dy <= 3999 and Y + dy != 1582]
    for yy, dd in qs:
        j = Epoch(yy, 1, 1.0).jde() + (dd - 1.0)
        r = jde_of(fn(Epoch(j), target=target))
        if abs(r - j) > 1.6 * b:
            bad = 'query year %d day-of-year %.2f (JDE %r) -> result %r: %.3f months away' % (yy, dd, j, r, abs(r - j) / b); break
else:
    b, S = INPUTS['b'], INPUTS.get('S', 2.0)
    j0, j1 = Epoch(-1999, 1, 1.0).jde(), Epoch(3999, 12, 1.0).jde()
    prev = None
    j = j0
    n = 0
    while j < j1 and n < 500000:
        try:
            r = jde_of(fn(Epoch(j), target=target))
        except Exception as ex:
            bad = 'query %r raised %r' % (j, ex); break
        if abs(r - j) > 2.2 * b and j < Epoch(3000, 1, 1.0).jde():
            bad = 'query %r -> result %r: %.2f months away' % (j, r, abs(r - j) / b); break
        if prev is not None:
            if r < prev - 1e-6:
                bad = 'result moved backwards: %r after %r (query %r)' % (r, prev, j); break
            if r > prev + 1e-6 and not (b - 2 * S - 0.5 <= r - prev <= b + 2 * S + 0.5):
                bad = 'consecutive results %r apart (month %r) at query %r' % (r - prev, b, j); break
        prev = r
        j += b / 10.0
        n += 1
if bad:
    print('REPRODUCED %s: Moon.%s(%s): %s' % (SITE, INPUTS['func'], target, bad)); sys.exit(1)
print('not reproduced'); sys.exit(0)
'''


class PassAngle2(PassAngle):
    def __init__(self, v=0.0, *a, **k):
        self.v = v.v if isinstance(v, PassAngle) else v

    @staticmethod
    def reduce_deg(v):
        return v

    def __rsub__(self, o):
        return PassAngle2(o - self.v)

    def __sub__(self, o):
        return PassAngle2(self.v - (o.v if isinstance(o, PassAngle) else o))

    def __add__(self, o):
        return PassAngle2(self.v + (o.v if isinstance(o, PassAngle) else o))

    __radd__ = __add__

    def __neg__(self):
        return PassAngle2(-self.v)


def task_finder(arg):
    fname, target = arg
    t = harness.Task('Moon.%s(%s)' % (fname, target))
    mod = loader.mod('Moon')
    E = loader.mod('Epoch')
    Epoch = E.Epoch
    fn = getattr(mod.Moon, fname)
    yr = Num.real_var('year')
    pre = [yr.e >= -2000, yr.e <= 4000]
    orig_set, orig_angle, orig_doy, orig_leap = Epoch.set, mod.Angle, Epoch.get_doy, Epoch.is_leap

    def set_summary(self, *args, **kw):
        if len(args) == 1 and not kw and core.s_isinstance(args[0], (int, float)):
            self._jde = args[0]
            return
        return orig_set(self, *args, **kw)
    q = Epoch()

    def run():
        # the fractional year the finder computes is y + doy/days: give it directly (the helper itself is C16)
        q.get_date = lambda **kw: (yr, 1, 1.0)
        r = fn(q, target=target)
        ep = r[0] if isinstance(r, tuple) else r
        return ep._jde, list(core.CUR.memo.get('rounds', [])), [v for k_, v in core.CUR.memo.items() if isinstance(k_, tuple) and k_[0] in ('sin', 'cos')]
    Epoch.set = set_summary
    mod.Angle = PassAngle2
    Epoch.get_doy = staticmethod(lambda y, m, d: Num.const(0.0))
    Epoch.is_leap = staticmethod(lambda y: False)
    try:
        ctx, paths = core.explore(run, pre, trig='box', check_div0=False, timeout_ms=20000, max_paths=50, max_seconds=300)
    finally:
        Epoch.set, mod.Angle, Epoch.get_doy, Epoch.is_leap = orig_set, orig_angle, orig_doy, orig_leap
    t.absorb_ctx(ctx, paths)
    bd = 'Moon.%s target %s: every fractional year in [-2000, 4000], sin/cos boxed' % (fname, target)
    inp = lambda mo: {'kind': 'skeleton', 'func': fname, 'target': target, 'b': {'moon_phase': 29.530588861, 'moon_perigee_apogee': 27.55454989, 'moon_passage_nodes': 27.212220817, 'moon_maximum_declination': 27.321582247}[fname]}
    okp = [p for p in paths if p.kind == 'ok']
    t.reach += 1
    if len(okp) != 1 or len(paths) != 1:
        t.ob('total: one accepting path, no exception' + '@%s.%s' % (fname, target), 'sat', 0, bd)
        t.cand('C15.skel', {'kind': 'skeleton', 'func': fname, 'target': target, 'b': 29.5}, 'paths: %r' % [(p.kind, repr(p.exc)) for p in paths][:3])
        return t
    t.ob('total on every fractional year: one path, no exception' + '@%s.%s' % (fname, target), 'unsat', 0, bd)
    p = okp[0]
    R, rounds, boxes = p.val
    R = core.lift(R).re()
    rounds = rounds[:1] if rounds else rounds
    if len(rounds) != 1:
        t.ob('exactly one rounded month count k' + '@%s.%s' % (fname, target), 'unknown', 0, bd)
        return t
    kexpr, xarg = rounds[0]
    K = z3.Int('K')
    Kr = z3.ToReal(K)
    Rk = z3.substitute(R, (kexpr, K))
    zero = [(bx, z3.RealVal(0)) for bx in boxes]
    p0 = z3.simplify(z3.substitute(Rk, *zero)) if boxes else Rk
    coeffs = []
    for bx in boxes:
        one = [(b2, z3.RealVal(1) if b2 is bx else z3.RealVal(0)) for b2 in boxes]
        coeffs.append(z3.simplify(z3.substitute(Rk, *one) - p0))
    lin = p0 + sum((bx * c for bx, c in zip(boxes, coeffs)), z3.RealVal(0))
    s = z3.Solver()
    s.set('timeout', 60000)
    s.add(Rk != lin)
    r_lin = str(s.check())
    t.ob('result linear in the boxed sines/cosines' + '@%s.%s' % (fname, target), r_lin, 0, bd)
    t.reach += 1
    if r_lin != 'unsat':
        return t
    # the month count: nearest integer to (year - c0) * rate
    c0, rate = RATES[fname]
    xq = (yr.e - z3.RealVal(c0)) * z3.RealVal(rate)         # written here from Meeus, not taken from the code
    t.decide(ctx, p, 'k = nearest month count to the query: |k - (year - c0)*rate| <= 1/2' + '@%s.%s' % (fname, target),
             z3.Or(z3.ToReal(kexpr) - xq > z3.RealVal('1/2'), xq - z3.ToReal(kexpr) > z3.RealVal('1/2')), 'C15.skel', inp, 'month count', bd, timeout_ms=60000, retry=False)
    t.reach += 1
    kmin, kmax = -56000, 28000

    def val_at(expr, kv):
        v = z3.simplify(z3.substitute(expr, (K, z3.IntVal(kv))))
        try:
            return float(v.as_fraction())
        except Exception:
            return 0.0

    def sup_abs(expr):
        M = max(abs(val_at(expr, kv)) for kv in (kmin, kmin // 2, 0, kmax // 2, kmax)) * 1.05 + 1e-7
        for _ in range(14):
            s2 = z3.Solver()
            s2.set('timeout', 30000)
            kr = z3.Real('kr')
            e2 = z3.substitute(expr, (z3.ToReal(K), kr))
            s2.add(kr >= kmin, kr <= kmax, z3.Or(e2 > z3.RealVal(repr(M)), e2 < -z3.RealVal(repr(M))))
            if s2.check() == z3.unsat:
                return M
            M *= 1.5
        return None
    b = val_at(p0, 1) - val_at(p0, 0)                      # the nominal month of this finder
    step = z3.simplify(z3.substitute(p0, (K, K + 1)) - p0 - z3.RealVal(repr(b)))
    D0 = sup_abs(step)
    Ms = [sup_abs(c) for c in coeffs]
    ok = D0 is not None and all(m is not None for m in Ms)
    t.ob('every amplitude of the periodic correction and the drift of the mean month bounded over all k (univariate queries)' + '@%s.%s' % (fname, target),
         'unsat' if ok else 'unknown', 0, 'k in [%d, %d]; %d amplitudes' % (kmin, kmax, len(Ms)), n=len(Ms) + 1)
    t.reach += len(Ms) + 1
    if not ok:
        return t
    S = sum(Ms)
    t.samples.append({'finder': 'Moon.%s(%s)' % (fname, target), 'month_days': round(b, 6), 'sum_of_amplitudes_days': round(S, 4), 'mean_month_drift_days': D0})
    mono = b - D0 - 2 * S > 0
    t.ob('results strictly increase with k: month - drift - 2*sum|amplitudes| > 0 (never backwards, none repeated, consecutive results one month +- that variation apart)'
         + '@%s.%s' % (fname, target), 'unsat' if mono else 'sat', 0, 'month = %.6f d, sum of amplitudes %.4f d, drift %.2g d' % (b, S, D0))
    t.reach += 1
    if not mono:
        t.cand('C15.skel', {'kind': 'skeleton', 'func': fname, 'target': target, 'b': b, 'S': S}, 'bounds do not give monotonicity')
    # ---- "within 1.6 months of the query": the query's JDE and its fractional year are tied by the calendar (spec written here)
    a0 = val_at(p0, 0)
    P = sup_abs(z3.simplify(p0 - z3.RealVal(repr(a0)) - z3.RealVal(repr(b)) * Kr))
    t.ob('mean instant a + b k + poly(k): |poly| bounded over all k' + '@%s.%s' % (fname, target), 'unsat' if P is not None else 'unknown', 0, 'univariate')
    if P is None:
        return t
    Ebound = z3.RealVal(repr(P + S))
    Yc, doy, Kd = z3.Int('Yc'), z3.Real('doy'), z3.Int('Kd')
    greg = Yc >= 1583
    leap = z3.If(greg, z3.And(Yc % 4 == 0, z3.Or(Yc % 100 != 0, Yc % 400 == 0)), Yc % 4 == 0)
    J0 = z3.If(greg, z3.RealVal('1721424.5') + z3.ToReal(365 * (Yc - 1) + (Yc - 1) / 4 - (Yc - 1) / 100 + (Yc - 1) / 400),
               z3.RealVal('1721422.5') + z3.ToReal(365 * (Yc - 1) + (Yc - 1) / 4))
    yearq = z3.ToReal(Yc) + z3.If(leap, doy / 366, doy / 365)
    xq2 = (yearq - z3.RealVal(c0)) * z3.RealVal(rate)
    jq = J0 + doy
    lo = z3.RealVal(repr(a0)) + z3.RealVal(repr(b)) * z3.ToReal(Kd)
    lim = z3.RealVal('1.6') * z3.RealVal(repr(b))
    dom = [Yc >= -2000, Yc <= 3999, Yc != 1582, doy >= 1, doy < z3.If(leap, 367, 366), z3.ToReal(Kd) - xq2 <= z3.RealVal('1/2'), xq2 - z3.ToReal(Kd) <= z3.RealVal('1/2')]
    bad_abs = z3.Or(lo + Ebound - jq > lim, jq - lo + Ebound > lim)
    bad_def = z3.Or(lo - Ebound - jq > lim, jq - lo - Ebound > lim)
    zones = [(k_['year_from'], k_['year_to'], k_) for k_ in harness.load_known()
             if k_.get('property') == PID and k_.get('status') == 'known' and k_.get('func') == fname and k_.get('target') == target]
    inp_d = lambda mo: {'kind': 'distance', 'func': fname, 'target': target, 'b': b, 'Y': mo.eval(Yc, model_completion=True).as_long(),
                        'doy': float(mo.eval(doy, model_completion=True).as_fraction())}
    outside = [z3.Or(Yc < z0, Yc > z1) for z0, z1, _ in zones]
    gray = GRAY.get((fname, target))
    if gray:
        outside.append(z3.Or(Yc < gray[0], Yc > gray[1]))
    if os.environ.get('C15_PROBE'):
        def ext(bad, hi):
            def sat_with(c):
                s3 = z3.Solver(); s3.set('timeout', 60000); s3.add(*dom); s3.add(bad, c)
                return s3.check() == z3.sat
            if not sat_with(Yc >= 1900 if hi else Yc < 1900):
                return None
            a_, b_ = (1900, 3999) if hi else (-2000, 1899)
            # hi: smallest Y>=1900 with a violation; lo: largest Y<1900 with a violation
            while a_ < b_:
                m_ = (a_ + b_) // 2
                if hi:
                    if sat_with(z3.And(Yc >= 1900, Yc <= m_)): b_ = m_
                    else: a_ = m_ + 1
                else:
                    if sat_with(z3.And(Yc < 1900, Yc > m_)): a_ = m_ + 1
                    else: b_ = m_
            return a_
        print('PROBE', fname, target, 'E=%.3f' % (P + S), 'abs hi', ext(bad_abs, True), 'abs lo', ext(bad_abs, False), 'def hi', ext(bad_def, True), 'def lo', ext(bad_def, False), flush=True)
    t.reach += 1
    # (Kd stands for the rounded count; the shift of the target (+0.25/+0.5/+0.75) is part of p0)
    t.decide(ctx, p, 'result within 1.6 months of the query (a + b k + |poly| + sum of amplitudes against the calendar position of the query)'
             + '@%s.%s' % (fname, target), z3.And(*(dom + outside + [bad_abs])), 'C15.dist', inp_d, 'more than 1.6 months from the query',
             'every calendar year -2000..3999 except 1582%s%s, every day of year (real)' % (''.join(' and the recorded finding %d..%d' % (z0, z1) for z0, z1, _ in zones), ' and the undecided years %d..%d' % gray if gray else ''),
             timeout_ms=120000, use_pc=False, retry=False)
    for z0, z1, k_ in zones:
        # the recorded finding must still be there (reported as KNOWN-FINDING after replay), judged with the most favourable correction
        t.decide(ctx, p, 'recorded finding still present: more than 1.6 months away whatever the periodic correction' + '@%s.%s.%d' % (fname, target, z0),
                 z3.And(*(dom + [Yc >= z0, Yc <= z1, bad_def])), 'C15.dist', inp_d, 'more than 1.6 months from the query', 'years %d..%d' % (z0, z1),
                 timeout_ms=120000, use_pc=False, retry=False)
    t.notes.append('calendar position of a query: JDE = J0(Y) + doy, fractional year = Y + doy/days(Y), with J0 and leap years written in the harness (Julian before 1582, Gregorian from 1583; 1582 excluded)')
    return t


def task_targets(_):
    t = harness.Task('target validation')
    mod = loader.mod('Moon')
    E = loader.mod('Epoch')
    for fname in FINDERS:
        for bad_t in ('', 'New', 'foo', 'perigee ' if fname != 'moon_perigee_apogee' else 'full'):
            ctx, paths = core.explore(lambda: getattr(mod.Moon, fname)(E.JDE2000, target=bad_t), [], max_paths=10, check_div0=False, trig='box')
            ok = paths and all(p.kind == 'exc' and isinstance(p.exc, ValueError) for p in paths)
            t.reach += 1
            if not ok:
                t.ob('Moon.%s(target=%r) raises ValueError' % (fname, bad_t), 'sat', 0, '')
                t.cand('C15.target', {'kind': 'target', 'func': fname, 'target': FINDERS[fname][0], 'bad_target': bad_t}, 'accepted or wrong exception')
    t.ob('invalid target strings raise ValueError', 'unsat', 0, '4 finders x 4 invalid strings', n=16)
    return t


def task_fraction(_):
    """illuminated_fraction_disk = (1 + cos i)/2 lies in [0, 1] whatever the boxed sines are"""
    t = harness.Task('illuminated fraction')
    mod = loader.mod('Moon')
    E = loader.mod('Epoch')
    j = Num.real_var('jde')
    e = E.Epoch()
    orig = mod.Angle
    mod.Angle = PassAngle2

    def fn():
        e._jde = j
        return mod.Moon.illuminated_fraction_disk(e)
    try:
        ctx, paths = core.explore(fn, [j.e >= 0, j.e <= 5400000], trig='box', check_div0=False, max_paths=10)
    finally:
        mod.Angle = orig
    t.absorb_ctx(ctx, paths)
    for i, p in enumerate(paths):
        if p.kind != 'ok':
            t.ob('illuminated_fraction_disk total@p%d' % i, 'sat', 0, '')
            continue
        k = core.lift(p.val).re()
        t.reach += 1
        t.decide(ctx, p, 'illuminated fraction = (1 + cos i)/2 in [0, 1] for every epoch@p%d' % i, z3.Or(k < 0, k > 1), 'C15.frac', lambda mo: {}, 'range',
                 'every JDE in [0, 5.4e6]; cos boxed', timeout_ms=60000, retry=False)
    return t


RATES_SEC = {'longitude_mean_ascending_node': ('-1934.1362891', '0.5'), 'longitude_mean_perigee': ('4069.0137287', '1.5')}


def task_rates(fname):
    """mean node / mean perigee: between any two epochs of the range the longitude advances at the secular rate of Meeus
    ch. 47 (degrees per Julian century, tolerance for the T^2.. terms over 60 centuries); true node within the sum of its
    five periodic amplitudes of the mean node"""
    t = harness.Task('Moon.%s' % fname)
    mod = loader.mod('Moon')
    E = loader.mod('Epoch')
    j1, j2 = Num.real_var('j1'), Num.real_var('j2')
    e1, e2 = E.Epoch(), E.Epoch()
    orig = mod.Angle
    mod.Angle = PassAngle2
    fn = getattr(mod.Moon, fname)

    def run():
        e1._jde = j1
        e2._jde = j2
        a, b = fn(e1), fn(e2)
        return a.v, b.v, [v for k_, v in core.CUR.memo.items() if isinstance(k_, tuple) and k_[0] in ('sin', 'cos')]
    lo, hi = 990557.5, 3182395.5          # years -2000 .. 4000
    try:
        ctx, paths = core.explore(run, [j1.e >= lo, j2.e <= hi, j1.e < j2.e], trig='box', check_div0=False, max_paths=10, timeout_ms=20000)
    finally:
        mod.Angle = orig
    t.absorb_ctx(ctx, paths)
    bd = 'every pair of epochs j1 < j2 in years -2000..4000'
    if len(paths) != 1 or paths[0].kind != 'ok':
        t.ob('Moon.%s total: one path' % fname, 'unknown', 0, bd)
        return t
    p = paths[0]
    v1, v2, boxes = p.val
    v1, v2 = core.lift(v1).re(), core.lift(v2).re()
    dT = (j2.e - j1.e) / 36525
    t.reach += 1
    if fname in RATES_SEC:
        rate, tol = RATES_SEC[fname]
        r0, tl = z3.RealVal(rate), z3.RealVal(tol)
        t.decide(ctx, p, 'Moon.%s advances at %s deg/century (+- %s) between any two epochs' % (fname, rate, tol),
                 z3.Or(v2 - v1 > (r0 + tl) * dT, v2 - v1 < (r0 - tl) * dT), 'C15.rate', lambda mo: {'kind': 'rate', 'func': fname, 'rate': float(rate), 'tol': float(tol)},
                 'secular rate', bd, timeout_ms=120000, retry=False)
    else:
        # true node: same epoch twice is enough -- compare with the mean node at that epoch
        mean1 = None
        mod.Angle = PassAngle2
        try:
            ctx2, paths2 = core.explore(lambda: (mod.Moon.longitude_mean_ascending_node(_set(e1, j1)).v), [j1.e >= lo, j1.e <= hi], trig='box', check_div0=False, max_paths=10)
        finally:
            mod.Angle = orig
        mean1 = core.lift(paths2[0].val).re()
        t.decide(ctx, p, 'true ascending node within 1.98 degrees of the mean node (sum of the five periodic amplitudes)',
                 z3.Or(v1 - mean1 > z3.RealVal('1.98'), mean1 - v1 > z3.RealVal('1.98')), 'C15.rate', lambda mo: {'kind': 'rate', 'func': fname, 'rate': 0.0, 'tol': 1.98},
                 'true node', 'every epoch in years -2000..4000; sines boxed', timeout_ms=120000, retry=False)
    return t


def _set(e, j):
    e._jde = j
    return e


def dispatch(job):
    k, a = job
    return {'finder': task_finder, 'targets': task_targets, 'frac': task_fraction, 'rate': task_rates}[k](a)


def main(tier):
    loader.install()
    chk = harness.Check(PID, tier)
    chk.replays = {'C15.skel': REPLAY, 'C15.target': REPLAY, 'C15.dist': REPLAY, 'C15.rate': REPLAY, 'C15.frac': "sys.exit(0)\n"}
    chk.functions = ['Moon.longitude_mean_ascending_node', 'Moon.longitude_mean_perigee', 'Moon.longitude_true_ascending_node', 'Moon.moon_phase', 'Moon.moon_perigee_apogee', 'Moon.moon_passage_nodes', 'Moon.moon_maximum_declination', 'Moon.illuminated_fraction_disk']
    jobs = [('finder', (f, tg)) for f, tgs in FINDERS.items() for tg in tgs] + [('targets', 0), ('frac', 0)] + [('rate', f) for f in ('longitude_mean_ascending_node', 'longitude_mean_perigee', 'longitude_true_ascending_node')]
    chk.run(dispatch, jobs, 'lunar finders: selection skeleton')
    # the calendar position written in task_finder (J0, leap years, fractional year) against the real Epoch on concrete dates
    E = loader.mod('Epoch')
    okv = 0
    for Y in list(range(-2000, 4000, 97)) + [-2000, -1, 0, 1, 4, 100, 1500, 1581, 1583, 1600, 1700, 1900, 2000, 2100, 3999]:
        if Y == 1582:
            continue
        g = Y >= 1583
        fl = lambda a_, b_: a_ // b_
        J0 = (1721424.5 + 365 * (Y - 1) + fl(Y - 1, 4) - fl(Y - 1, 100) + fl(Y - 1, 400)) if g else (1721422.5 + 365 * (Y - 1) + fl(Y - 1, 4))
        leap = (Y % 4 == 0 and (Y % 100 != 0 or Y % 400 == 0)) if g else (Y % 4 == 0)
        for mth, d in ((1, 1.0), (3, 1.5), (12, 31.75)):
            ep = E.Epoch(Y, mth, d)
            doy = E.Epoch.get_doy(Y, mth, d)
            if abs(float(ep.jde()) - (J0 + float(doy))) < 1e-6 and bool(E.Epoch.is_leap(Y)) == leap:
                okv += 1
            else:
                chk.inconclusive.append('calendar position spec disagrees with the real Epoch at %d-%d-%r' % (Y, mth, d))
    chk.diff_ok += okv
    chk.bounds = {'query': 'every fractional year in [-2000, 4000] (symbolic real)', 'finders': '4 finders x all targets (10 variants)'}
    chk.stubs = ['epoch.get_date / Epoch.get_doy / Epoch.is_leap inside the finders -> the fractional year as one symbolic real (the helper itself: C16, incl. the repaired Julian leap days)',
                 'sin/cos -> boxes; Angle inside Moon.py -> pass-through; Epoch(number) -> stores the JDE']
    chk.outside = ['all physical-range clauses and "the finder agrees with the position theory" (values of the ELP-2000 series)', 'within 1.6 months: apogee queries of years 3802..3999 (amplitude bound too coarse), the year 1582, and the lower part of each recorded finding zone (abstraction cannot decide there)',
                   'the extra values returned by the perigee/apogee and declination finders']
    chk.assumptions = ['real arithmetic; box abstraction over-approximates the code']
    return chk.finish()
