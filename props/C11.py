"""C11 -- Kepler's equation is solved; two-body relations hold.

Real code executed symbolically (modes R / T / box): Coordinates.kepler_equation (anomaly reduction head, bisection loop
body and true-anomaly tail sliced from the current source), velocity, velocity_perihelion, velocity_aphelion,
length_orbit, phase_angle, illuminated_fraction.
"""
import ast
import math
import z3

from symx import core, loader, harness, slicer, trig
from symx.core import Num, Fr

PID = 'C11'
PI = Fr(repr(math.pi))
TOLV = Fr(1, 10 ** 10)

REPLAY = r'''
from pymeeus.Angle import Angle
import pymeeus.Coordinates as C
from math import sin, cos, tan, radians, degrees, sqrt, pi, atan
bad = None
k = INPUTS['kind']
def residual(e, M):
    E, v = C.kepler_equation(e, Angle(M))
    Er = radians(E())
    r = degrees(Er - e * sin(Er)) - M
    r = (r + 180.0) % 360.0 - 180.0
    return E(), v(), r
if k == 'kepler':
    # the solver's finding concerns the reduction / the loop invariant; realise it on the real function:
    # first the model's own (e, M) if any, then a fixed grid incl. tiny eccentricities, negative and multi-turn anomalies
    cases = []
    if 'e' in INPUTS and 'M' in INPUTS:
        cases.append((F(INPUTS['e']), F(INPUTS['M'])))
    for e in (0.0, 1e-9, 5e-8, 5e-7, 1e-3, 0.1, 0.5, 0.9, 0.97, 0.999):
        for M in (-350.0, -200.0, -185.0, -90.0, -1.0, 0.0, 1.0, 45.0, 90.0, 135.0, 179.0, 181.0, 200.0, 300.0, 355.0):
            cases.append((e, M))
    for e, M in cases:
        try:
            E, v, r = residual(e, M)
        except Exception as ex:
            bad = 'kepler_equation(%r, %r) raised %r' % (e, M, ex); break
        Mr = M % 360.0
        same_half = (0 <= (E % 360.0) <= 180.0) == (0 <= Mr <= 180.0) or abs(Mr - 180.0) < 1e-9 or abs(Mr) < 1e-9
        if abs(r) > 5e-8 or not same_half:
            bad = 'kepler_equation(%r, %r): E = %r, E - e sin E - M = %.3g deg' % (e, M, E, r); break
elif k == 'speed':
    e, a = F(INPUTS['e']), F(INPUTS['a'])
    vp, va = C.velocity_perihelion(e, a), C.velocity_aphelion(e, a)
    if abs(C.velocity(a * (1 - e), a) / vp - 1) > 1e-5 or abs(C.velocity(a * (1 + e), a) / va - 1) > 1e-5 or abs(vp * va * a / 29.7847 ** 2 - 1) > 1e-9:
        bad = 'vis-viva at e=%r a=%r' % (e, a)
elif k == 'length':
    e, a = F(INPUTS['e']), F(INPUTS['a'])
    L = C.length_orbit(e, a); b = a * sqrt(1 - e * e)
    if not (2 * pi * b * (1 - 1e-12) <= L <= 2 * pi * a * (1 + 1e-12)):
        bad = 'length_orbit(%r, %r) = %r outside [%r, %r]' % (e, a, L, 2 * pi * b, 2 * pi * a)
    elif abs(C.length_orbit(0.95, a) / C.length_orbit(0.95 - 1e-12, a) - 1) > 1e-3:
        bad = 'length_orbit jumps at e = 0.95'
elif k == 'phase':
    r, d, R = F(INPUTS['r']), F(INPUTS['d']), F(INPUTS['R'])
    kk = C.illuminated_fraction(r, d, R); i = C.phase_angle(r, d, R)
    if abs(kk - (1 + cos(i.rad())) / 2) > 1e-9:
        bad = 'illuminated fraction %r, (1 + cos i)/2 = %r' % (kk, (1 + cos(i.rad())) / 2)
if bad:
    print('REPRODUCED %s: %s' % (SITE, bad)); sys.exit(1)
print('not reproduced'); sys.exit(0)
'''


def zabs(e):
    return z3.If(e >= 0, e, -e)


def task_reduction(_):
    """anomaly reduction (the statements of kepler_equation before the bisection): 0 <= m <= pi and f*m = M modulo 2 pi;
    and the state handed to the loop satisfies the loop invariant's syntactic part (e0 - ef = 2d, d > 0)"""
    t = harness.Task('anomaly reduction')
    coords = loader.mod('Coordinates')
    Angle = loader.mod('Angle').Angle
    head, _s = slicer.head_until('Coordinates', 'kepler_equation', ast.While, 'eccentricity, mean_anomaly', '(m, f, e0, d, ef)', before=True)
    M = Num.real_var('M')
    ecc = Num.real_var('ecc')
    pre = [M.e > -360, M.e < 360, ecc.e >= 0, ecc.e < 1]
    ctx, paths = core.explore(lambda: head(ecc, Angle(M)), pre, check_div0=False, timeout_ms=20000, max_paths=100)
    t.absorb_ctx(ctx, paths)
    inp = lambda mo: {'kind': 'kepler', 'e': str(harness.meval(mo, ecc)), 'M': str(harness.meval(mo, M))}
    bd = 'every mean anomaly held by an Angle (-360, 360) degrees, every eccentricity in [0, 1); real arithmetic, pi = the double'
    pi = z3.RealVal(str(PI))
    Mr = M.e * z3.RealVal(str(trig.RAD))
    for i, p in enumerate(paths):
        tag = '@p%d' % i
        if p.kind != 'ok':
            r, mo, _ = core.check(ctx, p, z3.BoolVal(True))
            t.ob('reduction total' + tag, 'sat', 0, bd)
            t.cand('C11.kepler', inp(mo) if mo else {'kind': 'kepler'}, 'raised %r' % (p.exc,))
            continue
        m, f, e0, d, ef = [core.lift(v).re() for v in p.val]
        t.reach += 3
        t.decide(ctx, p, 'reduced anomaly in [0, pi]' + tag, z3.Or(m < 0, m > pi), 'C11.kepler', inp, 'reduction range', bd)
        kturn = z3.ToInt((f * m - Mr) / (2 * pi) + z3.RealVal('1/2'))
        t.decide(ctx, p, 'f*m congruent to M modulo 2 pi, f = +-1' + tag, z3.Or(f * m - Mr != 2 * pi * z3.ToReal(kturn), z3.And(f != 1, f != -1)), 'C11.kepler', inp,
                 'reduction congruence', bd)
        t.decide(ctx, p, 'state handed to the bisection: e0 = pi/2, e0 - ef = 2d, d = pi/4 (the loop is entered and the invariant starts true)' + tag,
                 z3.Or(e0 != z3.RealVal(str(Fr(repr(math.pi / 2.0)))), d != z3.RealVal(str(Fr(repr(math.pi / 4.0)))), e0 - ef != 2 * d), 'C11.kepler', inp, 'initial bisection state', bd)
    return t


def task_bisection(_):
    """one iteration of the bisection (loop body sliced from the current source) from an ARBITRARY state satisfying
    Inv: |E* - e0| <= 2d, |e0 - ef| = 2d, d > 0, where E* - ecc sin E* = m.  sin is an uninterpreted value constrained only
    by the Lipschitz fact |sin E* - sin e0| <= |E* - e0| (instantiated).  Inv is preserved; at exit (|e0 - ef| <= TOL) it gives
    |E* - e0| <= TOL, hence |e0 - ecc sin e0 - m| <= (1 + ecc) TOL < 5e-8 degree."""
    t = harness.Task('bisection step')
    coords = loader.mod('Coordinates')
    body, test, _s = slicer.loop_body('Coordinates', 'kepler_equation', 'e0, ef, d, m, ecc', '(e0, ef, d)')
    e0, ef, d, m, ecc = [Num.real_var(n) for n in ('e0', 'ef', 'd', 'm', 'ecc')]
    Es, ss, s0 = Num.real_var('Estar'), Num.real_var('sinEstar'), Num.real_var('sine0')
    pre = [ecc.e >= 0, ecc.e < 1, d.e > 0, zabs(Es.e - e0.e) <= 2 * d.e, zabs(e0.e - ef.e) == 2 * d.e,
           Es.e - ecc.e * ss.e == m.e, ss.e >= -1, ss.e <= 1, s0.e >= -1, s0.e <= 1, zabs(ss.e - s0.e) <= zabs(Es.e - e0.e)]
    orig = coords.sin
    coords.sin = lambda x: s0          # the one sine of the iteration, as an uninterpreted value
    try:
        ctx, paths = core.explore(lambda: body(e0, ef, d, m, ecc), pre, check_div0=False, timeout_ms=20000, max_paths=50)
    finally:
        coords.sin = orig
    t.absorb_ctx(ctx, paths)
    bd = 'arbitrary loop state satisfying the invariant, every eccentricity in [0, 1); sin uninterpreted + Lipschitz instance'
    for i, p in enumerate(paths):
        tag = '@p%d' % i
        if p.kind != 'ok':
            t.ob('loop body total' + tag, 'sat', 0, bd)
            t.cand('C11.kepler', {'kind': 'kepler'}, 'loop body raised %r' % (p.exc,))
            continue
        n0, nf, nd = [core.lift(v).re() for v in p.val]
        t.reach += 1
        t.decide(ctx, p, 'invariant preserved: |E* - e0| <= 2d, |e0 - ef| = 2d, d > 0 (d halves)' + tag,
                 z3.Or(zabs(Es.e - n0) > 2 * nd, zabs(n0 - nf) != 2 * nd, nd <= 0, nd * 2 != d.e), 'C11.kepler', lambda mo: {'kind': 'kepler'}, 'loop invariant', bd)
    # exit: the loop test is what the invariant speaks about
    t.ob('loop test is abs(e0 - ef) > TOL', 'unsat' if test.replace(' ', '') == 'abs(e0-ef)>TOL' else 'sat', 0, 'structural')
    if test.replace(' ', '') != 'abs(e0-ef)>TOL':
        t.cand('C11.kepler', {'kind': 'kepler'}, 'loop test %r' % test)
    # ground arithmetic: (1 + e) * TOL rad < 5e-8 degree
    t.ob('exit residual bound (1 + ecc) * TOL rad < 5e-8 degree', 'unsat' if 2 * TOLV * 180 / PI < Fr(5, 10 ** 8) else 'sat', 0, 'ground')
    t.reach += 2
    return t


def task_true_anomaly(_):
    """tail of kepler_equation: E = e0*f, v = 2 atan( sqrt((1+e)/(1-e)) tan(E/2) )"""
    t = harness.Task('true anomaly')
    tail, _s = slicer.tail_after('Coordinates', 'kepler_equation', ast.While, 'e0, f, ecc')
    ecc = Num.real_var('ecc')
    pre = trig.angle_pre('E0', 0, 180) + [ecc.e >= 0, ecc.e < 1, z3.Real('v_E0') > 0, z3.Real('v_E0') < 180]
    for fsign in (1.0, -1):
        def fn():
            x, at = trig.input_angle(None, 'E0', 0, 180, unit='rad')
            E, v = tail(x, fsign, ecc)
            a = v._deg.ang
            key = [k_ for k_, q in a.lin.items() if q][0]
            return E._deg, core.CUR.atoms[key].get('T'), a.lin[key], trig.cos_sin(Num('r', e=x.e / 2, ty=float, ang=trig.ang_scale(x.ang, Fr(1, 2))))
        ctx, paths = core.explore(fn, pre, trig='atoms', check_div0=False, timeout_ms=20000, max_paths=100)
        t.absorb_ctx(ctx, paths)
        bd = 'every eccentric anomaly in (0, 180) degrees, reflection sign %s, every eccentricity in [0, 1)' % fsign
        for i, p in enumerate(paths):
            tag = '@f%s.p%d' % (fsign, i)
            if p.kind != 'ok':
                t.ob('tail total' + tag, 'sat' if p.kind == 'exc' else 'unwind', 0, bd)
                continue
            E, T, coef, (ch, sh) = p.val
            t.reach += 2
            kk = z3.Real('kk')
            # tan(v/2) = T (v = 2*atan(T)) and T = sqrt((1+e)/(1-e)) * tan(E/2) with E = f*e0
            t.decide(ctx, p, 'v = 2 atan(T) with T * cos(E/2) = sqrt((1+e)/(1-e)) * sin(E/2)' + tag,
                     z3.And(kk > 0, kk * kk * (1 - ecc.e) == (1 + ecc.e), z3.Or(coef != 2, T * ch != kk * sh * int(fsign))) if T is not None else z3.BoolVal(True),
                     'C11.kepler', lambda mo: {'kind': 'kepler'}, 'true anomaly law', bd, timeout_ms=60000, retry=False)
            t.decide(ctx, p, 'E returned = f * e0 (same half revolution as the reduced anomaly)' + tag,
                     core.lift(E).re() != z3.Real('v_E0') * int(fsign), 'C11.kepler', lambda mo: {'kind': 'kepler'}, 'E', bd, timeout_ms=60000, retry=False)
    return t


def task_speeds(_):
    t = harness.Task('speeds and orbit length')
    coords = loader.mod('Coordinates')
    e, a = Num.real_var('e'), Num.real_var('a')
    pre = [e.e >= 0, e.e <= z3.RealVal('0.999999'), a.e >= z3.RealVal('0.3'), a.e <= 100]
    inp_s = lambda mo: {'kind': 'speed', 'e': str(harness.meval(mo, e)), 'a': str(harness.meval(mo, a))}

    def fn():
        return (coords.velocity(a * (1.0 - e), a), coords.velocity(a * (1.0 + e), a), coords.velocity_perihelion(e, a), coords.velocity_aphelion(e, a))
    ctx, paths = core.explore(fn, pre, timeout_ms=20000, max_paths=50, fresh_div=True)
    t.absorb_ctx(ctx, paths)
    bd = 'e in [0, 0.999999], a in [0.3, 100] AU; real arithmetic'
    for i, p in enumerate(paths):
        if p.kind != 'ok':
            t.ob('speeds total@p%d' % i, 'sat', 0, bd)
            t.cand('C11.speed', {'kind': 'speed', 'e': '1/2', 'a': '1'}, 'raised %r' % (p.exc,))
            continue
        v1, v2, vp, va = [core.lift(v).re() for v in p.val]
        t.reach += 2
        eps = z3.RealVal('1/100000')
        t.decide(ctx, p, 'speed at r = a(1-e) / a(1+e) equals the perihelion / aphelion speed (1e-5 relative: the two constants differ by 1.3e-6)@p%d' % i,
                 z3.Or(zabs(v1 - vp) > eps * vp, zabs(v2 - va) > eps * va, vp <= 0, va <= 0), 'C11.speed', inp_s, 'vis-viva', bd, timeout_ms=120000, retry=False)
        t.decide(ctx, p, 'perihelion speed * aphelion speed = circular speed squared (29.7847^2 / a)@p%d' % i,
                 vp * va * a.e != z3.RealVal('29.7847') * z3.RealVal('29.7847'), 'C11.speed', inp_s, 'product', bd, timeout_ms=120000, retry=False)
    # orbit length
    inp_l = lambda mo: {'kind': 'length', 'e': str(harness.meval(mo, e)), 'a': str(harness.meval(mo, a))}
    ctx, paths = core.explore(lambda: coords.length_orbit(e, a), pre, timeout_ms=20000, max_paths=50)
    t.absorb_ctx(ctx, paths)
    pi = z3.RealVal(str(PI))
    w = z3.Real('w1me2')
    for i, p in enumerate(paths):
        if p.kind != 'ok':
            t.ob('length total@p%d' % i, 'sat', 0, bd)
            continue
        L = core.lift(p.val).re()
        t.reach += 1
        t.decide(ctx, p, 'orbit length between the inscribed (2 pi b) and circumscribed (2 pi a) circles@p%d' % i,
                 z3.And(w >= 0, w * w == 1 - e.e * e.e, z3.Or(L < 2 * pi * a.e * w, L > 2 * pi * a.e)), 'C11.length', inp_l, 'length bounds', bd, timeout_ms=120000, retry=False)
    # continuity at the switch e = 0.95: both formulas at e = 0.95 within 1e-3 relative
    lens = []
    for ev in (Fr('0.95') - Fr(1, 10 ** 12), Fr('0.95')):
        ctx, paths = core.explore(lambda: coords.length_orbit(Num.const(ev), a), [a.e >= z3.RealVal('0.3'), a.e <= 100], timeout_ms=20000, max_paths=10)
        lens.append((ctx, paths))
    (c1, p1), (c2, p2) = lens
    if len(p1) == 1 and len(p2) == 1 and p1[0].kind == p2[0].kind == 'ok':
        L1, L2 = core.lift(p1[0].val).re(), core.lift(p2[0].val).re()
        s = z3.Solver()
        s.set('timeout', 120000)
        for c in c1.pre + p1[0].conds() + p2[0].conds():
            s.add(c)
        s.add(z3.Or(L1 - L2 > z3.RealVal('1/1000') * L2, L2 - L1 > z3.RealVal('1/1000') * L2))
        t.ob('orbit length continuous across the formula switch at e = 0.95 (1e-3 relative)', str(s.check()), 0, 'a in [0.3, 100]')
        t.reach += 1
    return t


def task_phase(_):
    t = harness.Task('phase')
    coords = loader.mod('Coordinates')
    r, d, R = Num.real_var('r'), Num.real_var('d'), Num.real_var('R')
    pre = [r.e > 0, d.e > 0, R.e > 0, r.e <= d.e + R.e, d.e <= r.e + R.e, R.e <= r.e + d.e, r.e <= 100, d.e <= 100, R.e <= 100]

    def fn():
        i = coords.phase_angle(r, d, R)
        key = [k_ for k_, q in i._deg.ang.lin.items() if q][0]
        return coords.illuminated_fraction(r, d, R), core.CUR.atoms[key].get('Z'), key[0]
    ctx, paths = core.explore(fn, pre, trig='atoms', timeout_ms=20000, max_paths=50, check_div0=True)
    t.absorb_ctx(ctx, paths)
    bd = 'every triangle-feasible triple of distances up to 100 AU'
    for i, p in enumerate(paths):
        if p.kind != 'ok':
            t.ob('phase total@p%d' % i, 'sat' if p.kind == 'exc' else 'unwind', 0, bd)
            continue
        k, Z, kind = p.val
        t.reach += 1
        t.decide(ctx, p, 'illuminated fraction = (1 + cos i)/2 with i = phase_angle (an arccosine)@p%d' % i,
                 z3.Or(2 * core.lift(k).re() != 1 + Z, z3.BoolVal(kind != 'acos')), 'C11.phase',
                 lambda mo: {'kind': 'phase', 'r': str(harness.meval(mo, r)), 'd': str(harness.meval(mo, d)), 'R': str(harness.meval(mo, R))},
                 'k = (1 + cos i)/2', bd, timeout_ms=60000)
    return t


def dispatch(job):
    return {'red': task_reduction, 'bis': task_bisection, 'tan': task_true_anomaly, 'spd': task_speeds, 'pha': task_phase}[job](0)


def main(tier):
    loader.install()
    chk = harness.Check(PID, tier)
    chk.replays = {k: REPLAY for k in ('C11.kepler', 'C11.speed', 'C11.length', 'C11.phase')}
    chk.functions = ['Coordinates.kepler_equation (head / loop body / tail sliced)', 'velocity', 'velocity_perihelion', 'velocity_aphelion', 'length_orbit', 'phase_angle',
                     'illuminated_fraction']
    chk.run(dispatch, ['red', 'bis', 'tan', 'spd', 'pha'], 'Kepler equation and two-body relations')
    chk.bounds = {'eccentricity': '[0, 1)', 'mean anomaly': 'any Angle value', 'a': '[0.3, 100] AU'}
    chk.stubs = ['sin inside the bisection body -> an uninterpreted value with one Lipschitz instance',
                 'the bisection is decided as one inductive step from an arbitrary state satisfying the invariant written in the harness']
    chk.outside = ['IEEE rounding inside the iteration (e0 += d*s, sin)', 'passage_nodes_elliptic / parabolic']
    chk.assumptions = ['real arithmetic; pi is the double math.pi taken as a rational', '|sin x - sin y| <= |x - y| and |sin x| <= 1 (facts about sine used as axioms)']
    return chk.finish()
