"""C10 -- UTC <-> TT offset follows the IERS leap-second history and inverts.

Real code executed symbolically (mode Q): Epoch.__init__/set/_check_values/_compute_jde (utc / leap_seconds
paths), Epoch.leap_seconds, Epoch.get_date(utc=True / leap_seconds=k) incl. get_doy/doy2date, Epoch.tt2ut.
"""
import z3

from symx import core, loader, harness, cuts
from symx.core import Num, Fr
from props import spec

PID = 'C10'
YMIN, YMAX = 1950, 2100

# IERS Bulletin C: first day on which the new TAI-UTC value is in force (year, month) -- written from the
# IERS list, independent of the library's LEAP_TABLE
IERS = [(1972, 7), (1973, 1), (1974, 1), (1975, 1), (1976, 1), (1977, 1), (1978, 1), (1979, 1), (1980, 1), (1981, 7),
        (1982, 7), (1983, 7), (1985, 7), (1988, 1), (1990, 1), (1991, 1), (1992, 7), (1993, 7), (1994, 7), (1996, 1),
        (1997, 7), (1999, 1), (2006, 1), (2009, 1), (2012, 7), (2015, 7), (2017, 1)]
assert len(IERS) == 27

IERS_SRC = 'IERS = %r\n' % (IERS,) + r'''
def leap_count(y, m):
    return sum(1 for (Y, M) in IERS if (Y, M) <= (y, m))
'''
exec(IERS_SRC)


def z_leap_count(y, m):
    """number of leap seconds inserted before the first day of (y, m); y a z3 Int, m a python int"""
    e = z3.IntVal(0)
    for (Y, M) in IERS:
        e = e + z3.If(z3.Or(y > Y, z3.And(y == Y, m >= M)) if M > 1 else (y >= Y), 1, 0)
    return e


REPLAY = spec.SPEC_SRC + IERS_SRC + r'''
from pymeeus.Epoch import Epoch
y, m, d, sec = INPUTS['y'], INPUTS['m'], INPUTS['d'], INPUTS['sec']
k = INPUTS.get('k')
day = d + sec / 86400.0
bad = []
tt = Epoch(y, m, day)
if k is None:
    e = Epoch(y, m, day, utc=True)
    want = (42.184 + leap_count(y, m)) if y >= 1972 else 0.0
else:
    e = Epoch(y, m, day, leap_seconds=k)
    want = (42.184 + k) if y >= 1972 else 0.0
got = (e.jde() - tt.jde()) * 86400.0
if abs(got - want) > 2e-4:          # a JDE near 2.45e6 resolves 4e-5 s
    bad.append('TT - UTC = %.4f s, expected %.4f s' % (got, want))
else:
    try:
        back = e.get_date(utc=True) if k is None else e.get_date(leap_seconds=k)
    except Exception as ex:
        back = ex
    ok = not isinstance(back, Exception)
    if ok:
        import math
        by, bm, bd = back
        ok = valid_civil(by, bm, int(math.floor(bd))) and abs((jdn_gregorian(by, bm, int(math.floor(bd))) + (bd - math.floor(bd))) - (jdn_gregorian(y, m, d) + sec / 86400.0)) * 86400.0 <= 1e-3 + 2e-4
    if not ok:
        bad.append('read back %r, civil date given was %r' % (back, (y, m, day)))
if bad:
    print('REPRODUCED %s: Epoch(%d,%d,%r%s): %s' % (SITE, y, m, day, '' if k is None else ', leap_seconds=%r' % k, '; '.join(bad))); sys.exit(1)
print('not reproduced'); sys.exit(0)
'''

REPLAY_TABLE = IERS_SRC + r'''
from pymeeus.Epoch import Epoch
y, m = INPUTS['y'], INPUTS['m']
got = Epoch.leap_seconds(y, m)
if got != leap_count(y, m):
    print('REPRODUCED %s: leap_seconds(%d, %d) = %r, IERS list gives %d' % (SITE, y, m, got, leap_count(y, m))); sys.exit(1)
sys.exit(0)
'''

REPLAY_DT = IERS_SRC + r'''
from pymeeus.Epoch import Epoch
if SITE == 'C10.deltat':
    y, m = INPUTS['y'], INPUTS['m']
    v = Epoch.tt2ut(y, m)
    if abs(v - (42.184 + leap_count(y, m))) > 3.5:
        print('REPRODUCED DeltaT(%d,%d) = %r vs 42.184 + %d' % (y, m, v, leap_count(y, m))); sys.exit(1)
else:
    J = INPUTS['joint']
    a, b = Epoch.tt2ut(J - 1, 12), Epoch.tt2ut(J, 1)
    if abs(a - b) >= 1.0:
        print('REPRODUCED DeltaT jumps by %r s at the joint %d' % (b - a, J)); sys.exit(1)
sys.exit(0)
'''


def task_offset(arg):
    m, mode = arg
    t = harness.Task('offset month=%d %s' % (m, mode))
    Epoch = loader.mod('Epoch').Epoch
    y = Num.int_var('y', YMIN, YMAX)
    d = Num.int_var('d', 1, 31)
    sec = Num.int_var('sec', 0, 86399)
    k = Num.int_var('k', 1, 60)
    pre = [y.n >= YMIN, y.n <= YMAX, d.n >= 1, d.n <= spec.z_month_len(y.n, m), sec.n >= 0, sec.n <= 86399, k.n >= 1, k.n <= 60]
    day = d + sec / Num.const(86400.0)

    def fn():
        tt = Epoch(y, m, day)
        if mode == 'utc':
            e = Epoch(y, m, day, utc=True)
        else:
            e = Epoch(y, m, day, leap_seconds=k)
        return tt.jde(), e.jde()
    ctx, paths = core.explore(fn, pre, track_sites=True)
    t.absorb_ctx(ctx, paths)

    def inp(model):
        r = {'y': harness.meval(model, y), 'm': m, 'd': harness.meval(model, d), 'sec': harness.meval(model, sec)}
        if mode != 'utc':
            r['k'] = harness.meval(model, k)
        return r
    bound = 'year %d..%d, month %d, every day, every whole second of the day%s' % (YMIN, YMAX, m, '' if mode == 'utc' else ', leap_seconds 1..60')
    N = z_leap_count(y.n, m) if mode == 'utc' else k.n
    for i, p in enumerate(paths):
        tag = '@m%d.%s.p%d' % (m, mode, i)
        if p.kind != 'ok':
            r, mo, _ = core.check(ctx, p, z3.BoolVal(True))
            t.ob('constructor total' + tag, 'sat', 0, bound)
            t.cand('C10.offset', inp(mo) if mo else {'y': 2000, 'm': m, 'd': 1, 'sec': 0}, 'raised %r' % (p.exc,))
            continue
        t.reach += 1
        a, b = core.lift(p.val[0]), core.lift(p.val[1])
        diff_ms = (b - a) * Num.const(86400000)       # exact, in ms
        want_ms = z3.If(y.n >= 1972, 42184 + 1000 * N, 0)
        # to 1e-6 s: the library adds 32.184 + 10.0 in floating point (42.184000000000005)
        t.decide(ctx, p, 'TT - UTC = 32.184 + 10 + leap seconds (IERS) from 1972-01-01, 0 before (1e-6 s)' + tag,
                 z3.Or(1000 * diff_ms.n > (1000 * want_ms + 1) * diff_ms.d, 1000 * diff_ms.n < (1000 * want_ms - 1) * diff_ms.d),
                 'C10.offset', inp, 'offset', bound)
        if i == 0:
            r, mo, _ = core.check(ctx, p, z3.BoolVal(True))
            if mo is not None:
                t.samples.append({'path': 'offset month %d %s path 0' % (m, mode), 'reach_witness': inp(mo)})
    t.sites = cuts.collect(ctx, paths)
    return t


def task_readback(arg):
    """TT -> UTC read-back.  get_date() is head (JDE -> TT calendar date; verified on its own by C01/C16) followed by
    the UTC adjustment.  The adjustment -- the statements of the real get_date() after `month = int(month)`, cut out
    of the current source -- is run on the TT calendar date of a civil (UTC) instant, which is the civil instant plus
    42.184 s + N (task_offset): same day, next day, or first day of the next month/year."""
    m, mode, case = arg
    t = harness.Task('readback month=%d %s %s' % (m, mode, case))
    Epoch = loader.mod('Epoch').Epoch
    from symx import slicer
    tail, _src = slicer.tail_after('Epoch', 'Epoch.get_date', 'month = int(month)', 'self, year, month, day, **kwargs')
    y = Num.int_var('y', 1972, YMAX)
    d = Num.int_var('d', 1, 31)
    sec = Num.int_var('sec', 0, 86399)
    k = Num.int_var('k', 1, 60)
    mlen = spec.z_month_len(y.n, m)
    pre = [y.n >= 1972, y.n <= YMAX, d.n >= 1, d.n <= mlen, sec.n >= 0, sec.n <= 86399, k.n >= 1, k.n <= 60]
    N = z_leap_count(y.n, m) if mode == 'utc' else k.n
    tt_ms = sec.n * 1000 + 42184 + 1000 * N            # ms after 0h of the civil day
    if case == 'same-day':
        pre.append(tt_ms < 86400000)
        ty, tm, td, tms = y, m, d, tt_ms
    elif case == 'next-day':
        pre += [tt_ms >= 86400000, d.n < mlen]
        ty, tm, td, tms = y, m, d + 1, tt_ms - 86400000
    else:
        pre += [tt_ms >= 86400000, d.n == mlen]
        ty, tm, td, tms = (y, m + 1, 1, tt_ms - 86400000) if m < 12 else (y + 1, 1, 1, tt_ms - 86400000)
    e = Epoch()

    def fn():
        day = td + Num('q', tms, 1, ty=int) / Num.const(86400000.0)
        return tail(e, ty, tm, day, utc=True) if mode == 'utc' else tail(e, ty, tm, day, leap_seconds=k)
    ctx, paths = core.explore(fn, pre, max_paths=3000, timeout_ms=30000, max_decisions=400)
    t.absorb_ctx(ctx, paths)

    def inp(model):
        r = {'y': harness.meval(model, y), 'm': m, 'd': harness.meval(model, d), 'sec': harness.meval(model, sec)}
        if mode != 'utc':
            r['k'] = harness.meval(model, k)
        return r
    bound = 'civil dates 1972-01-01..%d-12-31, month %d, every whole second of the day%s; case %s' % (
        YMAX, m, '' if mode == 'utc' else ', leap_seconds 1..60', case)
    for i, p in enumerate(paths):
        tag = '@m%d.%s.%s.p%d' % (m, mode, case, i)
        if p.kind != 'ok':
            r, mo, _ = core.check(ctx, p, z3.BoolVal(True), timeout_ms=120000)
            t.ob('read-back total' + tag, 'sat' if p.kind == 'exc' else 'unwind', 0, bound)
            if p.kind == 'exc':
                t.cand('C10.readback', inp(mo) if mo else {'y': 2000, 'm': m, 'd': 1, 'sec': 0}, 'raised %r' % (p.exc,))
            continue
        yy, mm, dd = p.val
        t.reach += 1
        dd = core.lift(dd)
        # compared as instants (a result a few microseconds before midnight is the same instant to 1 ms):
        # (day number of the returned date + its fraction) - (day number of the civil date + sec/86400), in ms
        mm_ = core.lift(mm)
        msym = int(mm_.cval()) if mm_.cval() is not None else mm_.ie()
        di = dd.floor()
        got_day = Num('q', spec.z_jdn(core.lift(yy).ie(), msym, di.ie(), True), 1, ty=int) + (dd - di)
        want_day = Num('q', spec.z_jdn(y.n, m, d.n, True), 1, ty=int) + sec / Num.const(86400.0)
        err = (got_day - want_day) * Num.const(86400000)      # ms
        valid = spec.z_valid_civil(core.lift(yy).ie(), msym, di.ie())
        bad = z3.Or(z3.Not(valid), (err > 1).e, (err < -1).e)
        t.decide(ctx, p, 'get_date(utc) returns the civil date given (1 ms)' + tag, bad, 'C10.readback', inp, 'read back', bound,
                 timeout_ms=60000)
        if i == 0:
            r, mo, _ = core.check(ctx, p, z3.BoolVal(True))
            if mo is not None:
                t.samples.append({'path': 'read-back month %d %s %s path 0' % (m, mode, case), 'reach_witness': inp(mo)})
    return t


def task_table(m):
    t = harness.Task('leap_seconds month=%d' % m)
    Epoch = loader.mod('Epoch').Epoch
    y = Num.int_var('y', YMIN, YMAX)
    pre = [y.n >= YMIN, y.n <= YMAX]
    ctx, paths = core.explore(lambda: Epoch.leap_seconds(y, m), pre, track_sites=True)
    t.absorb_ctx(ctx, paths)
    bound = 'year %d..%d month %d' % (YMIN, YMAX, m)
    for i, p in enumerate(paths):
        tag = '@m%d.p%d' % (m, i)
        if p.kind != 'ok':
            t.ob('leap_seconds total' + tag, 'sat', 0, bound)
            t.cand('C10.table', {'y': 2000, 'm': m}, 'raised %r' % (p.exc,))
            continue
        t.reach += 1
        v = core.lift(p.val)
        t.decide(ctx, p, 'leap_seconds(y, m) = IERS count (non-decreasing step function, constant after 2017-01)' + tag,
                 v.ie() != z_leap_count(y.n, m), 'C10.table', lambda mo: {'y': harness.meval(mo, y), 'm': m}, 'table', bound)
    t.sites = cuts.collect(ctx, paths)
    return t


def task_deltat(_):
    """finite clauses, evaluated through the instrumented tt2ut with exact rational arithmetic (symbolic constants)"""
    t = harness.Task('DeltaT')
    Epoch = loader.mod('Epoch').Epoch
    n = 0
    for yy in range(1972, 2019):
        for mm in range(1, 13):
            ctx, paths = core.explore(lambda: Epoch.tt2ut(Num.const(yy), Num.const(mm)), [], check_div0=False)
            v = core.lift(paths[0].val).cval()
            n += 1
            if abs(v - (Fr('42.184') + leap_count(yy, mm))) > Fr('3.5'):
                t.ob('DeltaT(%d,%d) within 3.5 s of 42.184 + leap seconds' % (yy, mm), 'sat', 0, 'ground instance')
                t.cand('C10.deltat', {'y': yy, 'm': mm}, 'DeltaT = %s' % float(v))
    t.ob('DeltaT within 3.5 s of 42.184 s + leap seconds, every (year, month) 1972..2018', 'unsat', 0,
         'exhaustive over the 564 (year, month) pairs; exact rational evaluation of the real polynomials', n=n)
    t.reach += n
    for J in (500, 1600, 1700, 1800, 1860, 1900, 1920, 1941, 1961, 1986, 2005, 2050, 2150):
        vals = []
        for (yy, mm) in ((J - 1, 12), (J, 1)):
            ctx, paths = core.explore(lambda: Epoch.tt2ut(Num.const(yy), Num.const(mm)), [], check_div0=False)
            vals.append(core.lift(paths[0].val).cval())
        ok = abs(vals[1] - vals[0]) < 1
        t.ob('DeltaT jump at the segment joint %d below 1 s' % J, 'unsat' if ok else 'sat', 0, 'ground instance (Dec %d vs Jan %d)' % (J - 1, J))
        t.reach += 1
        if not ok:
            t.cand('C10.joint', {'joint': J}, 'jump %s s' % float(vals[1] - vals[0]))
    return t


def main(tier):
    loader.install()
    chk = harness.Check(PID, tier)
    chk.replays = {'C10.offset': REPLAY, 'C10.readback': REPLAY, 'C10.table': REPLAY_TABLE, 'C10.deltat': REPLAY_DT, 'C10.joint': REPLAY_DT}
    chk.functions = ['Epoch.set', 'Epoch._check_values', 'Epoch._compute_jde', 'Epoch.leap_seconds', 'Epoch.get_date', 'Epoch.get_doy',
                     'Epoch.doy2date', 'Epoch.is_leap', 'Epoch.tt2ut', 'base.iint', 'datetime.date (model)']
    chk.bounds = {'year': [YMIN, YMAX], 'month': 'each of 1..12', 'day': 'every day of the month (symbolic)',
                  'time of day': 'every whole second 0..86399 (symbolic integer)', 'leap_seconds override': '1..60 (0 is documented as "no conversion")',
                  'DeltaT': 'every (year, month) 1972..2018; joints 500..2150'}
    chk.outside = ['leap_seconds=0 (documented to switch the conversion off)', 'local=True (reads the wall clock)',
                   'sub-second times of day', 'the DeltaT joint at -500 (the statement asks for joints after -500)']
    chk.stubs = ['get_date(utc) = head (JDE -> TT calendar date: C01/C16) ; tail (UTC adjustment).  The tail -- the statements after `month = int(month)`, sliced from the current source -- is explored on the TT calendar date of the civil instant (civil instant + 42.184 s + N, from the offset task); three cases: same day / next day / first day of next month',
                 'datetime.date -> model (symx/models/dt.py)']
    chk.assumptions = ['mode Q with cut lemmas (coverage.cut_lemmas); the 1 ms of the read-back clause is decided in exact arithmetic: a double near 2.45e6 days resolves 4e-5 s, which is below it']
    ns = {'Epoch': loader.mod('Epoch').Epoch}
    chk.diff([('lambda y,m: Epoch.leap_seconds(y,m)', [1972, 4]), ('lambda y,m: Epoch.leap_seconds(y,m)', [1972, 7]),
              ('lambda y,m: Epoch.leap_seconds(y,m)', [1983, 6]), ('lambda y,m: Epoch.leap_seconds(y,m)', [1983, 7]),
              ('lambda y,m: Epoch.leap_seconds(y,m)', [2016, 11]), ('lambda y,m: Epoch.leap_seconds(y,m)', [2018, 7]),
              ('lambda y,m: Epoch.tt2ut(y,m)', [1642, 1]), ('lambda y,m: Epoch.tt2ut(y,m)', [1977, 2]), ('lambda y,m: Epoch.tt2ut(y,m)', [2015, 7]),
              ('lambda y,m,d: Epoch(y,m,d,utc=True).jde()', [2000, 1, 1.5]), ('lambda y,m,d: Epoch(y,m,d,leap_seconds=35.0).jde()', [2000, 1, 1.5]),
              ('lambda y,m,d: Epoch(y,m,d,utc=True).get_date(utc=True)', [2010, 6, 15.25])], ns, ctx_kw={'check_div0': False})
    months = range(1, 13)
    ts = []
    ts += chk.run(task_offset, [(m, 'utc') for m in months] + [(m, 'override') for m in months], 'UTC -> TT offset')
    chk.run(task_readback, [(m, mode, case) for m in months for mode in ('utc', 'override') for case in ('same-day', 'next-day', 'next-month')], 'TT -> UTC read-back')
    ts += chk.run(task_table, list(months), 'leap-second table')
    chk.run(task_deltat, [0], 'DeltaT')
    cuts.discharge(chk, ts, tier)
    return chk.finish()
