"""C02 -- instants survive JDE <-> date/time; input forms agree; Epoch arithmetic.

Real code executed symbolically: Epoch.get_date / get_full_date (its h/m/s split sliced and run bit-precisely in
mode F and exactly in mode R), Epoch.set / _check_values / _compute_jde / check_input_date in mode Q for every
input form, and the operators on symbolic JDEs.
"""
import z3

from symx import core, loader, harness, slicer, fp, cuts
from symx.core import Num, Fr
from symx.fp import FNum, fpv
from symx.models import dt
from props import spec

PID = 'C02'
MS = 86400000

REPLAY = spec.SPEC_SRC + r'''
from pymeeus.Epoch import Epoch
import datetime, math
bad = None
k = INPUTS['kind']
if k == 'fields':
    import struct
    d = struct.unpack('>d', struct.pack('>Q', INPUTS['d']['bits']))[0]
    e = Epoch(2000, 1, 1.0); e.get_date = lambda **kw: (2000, 1, d)
    y, m, dd, h, mi, s = e.get_full_date()
    if not (0 <= h <= 23 and 0 <= mi <= 59 and 0 <= s < 60 and dd == int(d)):
        bad = 'day %r -> %r' % (d, (dd, h, mi, s))
elif k == 'jde':
    J, f = INPUTS['J'], F(INPUTS['f'])
    for ff in (0.0, f):
        e = Epoch(); e._jde = J - 0.5 + ff
        y, m, d = e.get_date()
        if not valid_civil(y, m, int(d)) or jdn_civil(y, m, int(d)) != J or abs((d - int(d)) - ff) > 1e-8:
            bad = 'get_date(JDE %r) = %r' % (e._jde, (y, m, d))
    if bad is None:
        yy, mm, dd, h, mi, s = e.get_full_date()
        back = Epoch(yy, mm, dd, h, mi, s).jde()
        if abs(back - e._jde) > 1e-8:
            bad = 'JDE %r -> %r -> JDE %r' % (e._jde, (yy, mm, dd, h, mi, s), back)
elif k == 'forms':
    y, m, d, h, mi, s, us = [INPUTS[v] for v in ('y', 'm', 'd', 'h', 'mi', 's', 'us')]
    ref = Epoch(y, m, d + (h + mi / 60.0 + (s + us / 1e6) / 3600.0) / 24.0).jde()
    forms = {'numbers': lambda: Epoch(y, m, d, h, mi, s + us / 1e6), 'tuple': lambda: Epoch((y, m, d, h, mi, s + us / 1e6)),
             'list': lambda: Epoch([y, m, d, h, mi, s + us / 1e6]), 'set': lambda: (lambda e: (e.set(y, m, d, h, mi, s + us / 1e6), e)[1])(Epoch()),
             'monthname': lambda: Epoch(y, ['Jan', 'Feb', 'Mar', 'Apr', 'May', 'Jun', 'Jul', 'Aug', 'Sep', 'Oct', 'Nov', 'Dec'][m - 1], d, h, mi, s + us / 1e6)}
    if 1 <= y <= 9999:
        forms['datetime'] = lambda: Epoch(datetime.datetime(y, m, d, h, mi, s, us))
    for nm, fn in forms.items():
        v = fn().jde()
        if abs(v - ref) > 1e-9:
            bad = 'form %s gives JDE %r, fractional-day form %r' % (nm, v, ref)
    if 1 <= y <= 9999:
        v = Epoch(datetime.date(y, m, d)).jde(); w = Epoch.check_input_date(y, m, d, leap_seconds=0.0).jde()
        if abs(v - Epoch(y, m, d).jde()) > 1e-9 or abs(w - Epoch(y, m, d).jde()) > 1e-9:
            bad = 'date / check_input_date form'
elif k == 'ops':
    j, x = F(INPUTS['j']), F(INPUTS['x'])
    e = Epoch(j)
    if abs(((e + x) - e) - x) > 1e-8 or abs((e - (e - x)) - x) > 1e-8 or abs((x + e).jde() - (e + x).jde()) > 0:
        bad = 'operator algebra at jde=%r x=%r' % (j, x)
if bad:
    print('REPRODUCED %s: %s' % (SITE, bad)); sys.exit(1)
print('not reproduced'); sys.exit(0)
'''


def task_fields_fp(_):
    """h/m/s split of get_full_date, bit-precise, for every double day value in [1, 32)"""
    t = harness.Task('h/m/s split (bit-precise)')
    tail, _src = slicer.tail_after('Epoch', 'Epoch.get_full_date', 'y, m, d = self.get_date(**kwargs)', 'self, y, m, d')
    Epoch = loader.mod('Epoch').Epoch
    d = FNum.var('d')
    pre = [fp.finite(d), z3.fpGEQ(d.f, fpv(1.0)), z3.fpLT(d.f, fpv(32.0))]
    e = Epoch()
    ctx, paths = core.explore(lambda: tail(e, 2000, 1, d), pre, timeout_ms=30000, max_paths=50, max_seconds=300)
    t.absorb_ctx(ctx, paths)
    import struct
    inp = lambda mo: {'kind': 'fields', 'd': {'bits': struct.unpack('>Q', struct.pack('>d', fp.fp_model_float(mo, d.f)))[0]}}
    bd = 'every double day value in [1, 32)'
    F = fp.to_f
    for i, p in enumerate(paths):
        if p.kind != 'ok':
            t.ob('split total@p%d' % i, 'sat', 0, bd)
            continue
        y, m, dd, h, mi, s = p.val
        t.reach += 4
        for nm, bad in (('hour in 0..23', z3.Not(z3.And(z3.fpGEQ(F(h), fpv(0.0)), z3.fpLEQ(F(h), fpv(23.0))))),
                        ('minute in 0..59', z3.Not(z3.And(z3.fpGEQ(F(mi), fpv(0.0)), z3.fpLEQ(F(mi), fpv(59.0))))),
                        ('0 <= second < 60', z3.Not(z3.And(z3.fpGEQ(F(s), fpv(0.0)), z3.fpLT(F(s), fpv(60.0))))),
                        ('day field = integer part of the day', z3.Not(z3.fpEQ(F(dd), z3.fpRoundToIntegral(z3.RTZ(), d.f))))):
            t.decide(ctx, p, nm + '@p%d' % i, bad, 'C02.fields', inp, nm, bd, timeout_ms=600000, retry=False)
    return t


def task_fields_real(_):
    """the same split in exact arithmetic recombines to the day: d_int + h/24 + mi/1440 + s/86400 = d"""
    t = harness.Task('h/m/s split (exact)')
    tail, _src = slicer.tail_after('Epoch', 'Epoch.get_full_date', 'y, m, d = self.get_date(**kwargs)', 'self, y, m, d')
    Epoch = loader.mod('Epoch').Epoch
    d = Num.real_var('d')
    e = Epoch()
    ctx, paths = core.explore(lambda: tail(e, 2000, 1, d), [d.e >= 1, d.e < 32], max_paths=50)
    t.absorb_ctx(ctx, paths)
    for i, p in enumerate(paths):
        if p.kind != 'ok':
            t.ob('split total@p%d' % i, 'sat', 0, '')
            continue
        y, m, dd, h, mi, s = [core.lift(v) for v in p.val]
        t.reach += 1
        t.decide(ctx, p, 'fields recombine to the day exactly: dd + h/24 + mi/1440 + s/86400 = d@p%d' % i,
                 dd.re() + h.re() / 24 + mi.re() / 1440 + s.re() / 86400 != d.e, 'C02.fields', lambda mo: {'kind': 'jde', 'J': 2451545, 'f': '1/3'},
                 'recombination', 'every real day value in [1, 32)')
    return t


def task_jde2date(_):
    """get_date on JDE = J - 1/2 + f is get_date on J - 1/2 with the time of day added to the day, for every day number J
    (for whole days get_date inverts the constructor and JDE = day count - 1/2: C01; every J is the day count of a civil
    date: C01's specification lemma) -- hence the date tuple is non-decreasing in JDE and JDE -> date -> JDE closes"""
    from props import C16
    t = C16.task_getdate_frac(0)
    for c in t.cands:
        c['site'] = 'C02.jde'
        c['inputs'] = dict(c['inputs'], kind='jde')
    return t


def task_forms(m):
    """all documented ways of giving one instant give the same JDE (1e-9 day), month m"""
    t = harness.Task('input forms month=%d' % m)
    E = loader.mod('Epoch')
    Epoch = E.Epoch
    y = Num.int_var('y', 1583, 6000)
    d = Num.int_var('d', 1, 31)
    h = Num.int_var('h', 0, 23)
    mi = Num.int_var('mi', 0, 59)
    s = Num.int_var('s', 0, 59)
    us = Num.int_var('us', 0, 999999)
    pre = [y.n >= 1583, y.n <= 6000, d.n >= 1, d.n <= spec.z_month_len(y.n, m), h.n >= 0, h.n <= 23, mi.n >= 0, mi.n <= 59, s.n >= 0, s.n <= 59,
           us.n >= 0, us.n <= 999999, z3.Not(z3.And(y.n == 1582, m == 10, d.n >= 5, d.n <= 14))]
    sec = s + us / Num.const(1e6)
    names = ['Jan', 'Feb', 'Mar', 'Apr', 'May', 'Jun', 'Jul', 'Aug', 'Sep', 'Oct', 'Nov', 'Dec']
    forms = {
        'fractional day': lambda: Epoch(y, m, d + (h + mi / Num.const(60.0) + sec / Num.const(3600.0)) / Num.const(24.0)),
        'separate numbers': lambda: Epoch(y, m, d, h, mi, sec),
        'tuple': lambda: Epoch((y, m, d, h, mi, sec)),
        'list': lambda: Epoch([y, m, d, h, mi, sec]),
        'set()': lambda: (lambda e: (e.set(y, m, d, h, mi, sec), e)[1])(Epoch()),
        'month name': lambda: Epoch(y, names[m - 1], d, h, mi, sec),
        'datetime': lambda: Epoch(dt.datetime(y, m, d, h, mi, s, us)),
        'check_input_date tuple': lambda: Epoch.check_input_date((y, m, d + (h + mi / Num.const(60.0) + sec / Num.const(3600.0)) / Num.const(24.0)), leap_seconds=0.0),
    }
    dforms = {'date': lambda: Epoch(dt.date(y, m, d)), 'check_input_date': lambda: Epoch.check_input_date(y, m, d, leap_seconds=0.0),
              'check_input_date(date)': lambda: Epoch.check_input_date(dt.date(y, m, d), leap_seconds=0.0)}

    def f_():
        ref = forms['fractional day']().jde()
        out = {k: fn().jde() for k, fn in forms.items() if k != 'fractional day'}
        ref0 = Epoch(y, m, d).jde()
        out0 = {k: fn().jde() for k, fn in dforms.items()}
        return ref, out, ref0, out0
    ctx, paths = core.explore(f_, pre, timeout_ms=30000, max_paths=400)
    t.absorb_ctx(ctx, paths)
    inp = lambda mo: dict(kind='forms', m=m, **{k: harness.meval(mo, v) for k, v in (('y', y), ('d', d), ('h', h), ('mi', mi), ('s', s), ('us', us))})
    bd = 'year 1583..6000 (dates a datetime can hold in the calendar in force), month %d, every day, h/m/s integers, microseconds 0..999999' % m
    tol = Fr(1, 10 ** 9)
    for i, p in enumerate(paths):
        tag = '@m%d.p%d' % (m, i)
        if p.kind != 'ok':
            r, mo, _ = core.check(ctx, p, z3.BoolVal(True))
            t.ob('input forms total' + tag, 'sat', 0, bd)
            t.cand('C02.forms', inp(mo) if mo else {}, 'raised %r' % (p.exc,))
            continue
        ref, out, ref0, out0 = p.val
        for grp, base in ((out, core.lift(ref)), (out0, core.lift(ref0))):
            for k, v in grp.items():
                t.reach += 1
                df = core.lift(v) - base
                # first a clear difference (1e-7 day, replayable with doubles), then the 1e-9 of the statement
                big = Fr(1, 10 ** 7)
                r1, _m = t.decide(ctx, p, 'form "%s" gives the same JDE (1e-7 day, coarse pass)' % k + tag, z3.Or((df > Num.const(big)).e, (df < Num.const(-big)).e),
                                  'C02.forms', inp, 'form %s' % k, bd, timeout_ms=60000)
                if r1 == 'unsat':
                    t.decide(ctx, p, 'form "%s" gives the same JDE (1e-9 day)' % k + tag, z3.Or((df > Num.const(tol)).e, (df < Num.const(-tol)).e), 'C02.forms', inp,
                             'form %s' % k, bd, timeout_ms=60000)
    return t


def task_ops(_):
    """operators on symbolic JDEs.  The single-number constructor is replaced by its summary `JDE is stored as given`
    (JDE -> fields -> JDE identity: task_jde2date, task_fields_real, C01, C16), so that operators are checked for what
    THEY compute"""
    t = harness.Task('operators')
    E = loader.mod('Epoch')
    Epoch = E.Epoch
    orig_set = Epoch.set

    def set_summary(self, *args, **kw):
        if len(args) == 1 and not kw and core.s_isinstance(args[0], (int, float)):
            self._jde = args[0]
            return
        return orig_set(self, *args, **kw)
    Epoch.set = set_summary
    try:
        j1, j2, x = Num.real_var('j1'), Num.real_var('j2'), Num.real_var('x')
        pre = [j1.e >= 0, j1.e <= 5400000, j2.e >= 0, j2.e <= 5400000, x.e >= -1000000, x.e <= 1000000]

        def f_():
            a, b = Epoch(j1), Epoch(j2)
            r = {}
            r['(e+x)-e'] = (a + x) - a
            r['e-(e-x)'] = a - (a - x)
            r['x+e'] = (x + a).jde()
            r['e+x'] = (a + x).jde()
            c = Epoch(j1)
            c0 = c
            c += x
            r['e+=x'] = c.jde()
            r['iadd leaves e'] = c0.jde()
            c = Epoch(j1)
            c -= x
            r['e-=x'] = c.jde()
            r['e-x'] = (a - x).jde()
            r['a-b'] = a - b
            r['lt'], r['le'], r['gt'], r['ge'], r['eq'], r['ne'] = a < b, a <= b, a > b, a >= b, a == b, a != b
            r['hash'] = (0, 0)
            r['after'] = (a.jde(), b.jde())
            return r
        ctx, paths = core.explore(f_, pre, timeout_ms=20000, max_paths=400)
    finally:
        Epoch.set = orig_set
    t.absorb_ctx(ctx, paths)
    inp = lambda mo: {'kind': 'ops', 'j': str(harness.meval(mo, j1)), 'x': str(harness.meval(mo, x))}
    bd = 'every JDE in [0, 5.4e6], every offset |x| <= 1e6; exact arithmetic'
    tol = z3.RealVal('1/10000000000')
    for i, p in enumerate(paths):
        tag = '@p%d' % i
        if p.kind != 'ok':
            t.ob('operators total' + tag, 'sat', 0, bd)
            continue
        r = p.val
        L = lambda k: core.lift(r[k]).re()

        def bz(v):
            return core.bexpr(v) if isinstance(v, (bool, core.SBool)) else z3.BoolVal(bool(v))
        t.reach += 4
        t.decide(ctx, p, '(e+x)-e = x, e-(e-x) = x' + tag, z3.Or(L('(e+x)-e') != x.e, L('e-(e-x)') != x.e), 'C02.ops', inp, 'translation', bd)
        t.decide(ctx, p, 'x+e = e+x, e+=x = e+x (new object, e unchanged), e-=x = e-x, a-b = JDE difference' + tag,
                 z3.Or(L('x+e') != L('e+x'), L('e+=x') != L('e+x'), L('iadd leaves e') != j1.e, L('e-=x') != L('e-x'), L('a-b') != j1.e - j2.e,
                       L('e+x') != j1.e + x.e, L('e-x') != j1.e - x.e), 'C02.ops', inp, 'operator forms', bd)
        d12 = j1.e - j2.e
        absd = z3.If(d12 >= 0, d12, -d12)
        t.decide(ctx, p, '<, <=, >, >= order Epochs as their JDE; ==, != are equality within the documented tolerance' + tag,
                 z3.Not(z3.And(bz(r['lt']) == (j1.e < j2.e), bz(r['le']) == (j1.e <= j2.e), bz(r['gt']) == (j1.e > j2.e), bz(r['ge']) == (j1.e >= j2.e),
                               bz(r['eq']) == (absd < tol), bz(r['ne']) == z3.Not(absd < tol))), 'C02.ops', inp, 'comparisons', bd)
        ok = r['hash'][0] == r['hash'][1]
        same = z3.And(core.lift(r['after'][0]).re() == j1.e, core.lift(r['after'][1]).re() == j2.e)
        t.decide(ctx, p, 'operands unchanged' + tag, z3.Not(same) if ok else z3.BoolVal(True), 'C02.ops', inp, 'operands', bd)
    return t


def dispatch(job):
    k, a = job
    return {'ffp': task_fields_fp, 'freal': task_fields_real, 'jde': task_jde2date, 'forms': task_forms, 'ops': task_ops}[k](a)


def main(tier):
    loader.install()
    chk = harness.Check(PID, tier)
    chk.replays = {k: REPLAY for k in ('C02.fields', 'C02.jde', 'C02.forms', 'C02.ops')}
    chk.functions = ['Epoch.get_full_date (h/m/s split sliced)', 'Epoch.get_date', 'Epoch.set', 'Epoch._check_values', 'Epoch._compute_jde', 'Epoch.check_input_date',
                     'Epoch.__add__/__sub__/__radd__/__iadd__/__isub__', 'Epoch comparisons', 'Epoch.__hash__', 'datetime (model)']
    ns = {'Epoch': loader.mod('Epoch').Epoch}
    chk.diff([('lambda j: Epoch(j).get_full_date()', [2436116.31]), ('lambda j: Epoch(j).get_full_date()', [1507900.13]),
              ('lambda y,m,d,h,mi,s: Epoch(y,m,d,h,mi,s).jde()', [837, 4, 10, 7, 12, 0.0]), ('lambda j,x: ((Epoch(j) + x) - Epoch(j))', [2451545.25, 10000.5]),
              ('lambda j: Epoch(j).jde()', [2299160.75])], ns, tol=1e-6)
    months = range(1, 13) if tier == 'thorough' else [1 + (chk.seed + 5 * k) % 12 for k in range(4)] + [2, 10]
    jobs = [('ffp', 0), ('freal', 0), ('jde', 0), ('ops', 0)] + [('forms', m) for m in sorted(set(months))]
    ts = chk.run(dispatch, jobs, 'Epoch instants')
    cuts.discharge(chk, ts, tier)
    chk.bounds = {'JDE': '[0, 5.4e6]', 'offsets': '|x| <= 1e6', 'input forms': 'years 1583..6000, months %s, integer h/m/s, microseconds' % sorted(set(months))}
    chk.stubs = ['operators: Epoch(number) replaced by `stores the JDE as given` (the JDE -> fields -> JDE identity is decided by the other tasks here and by C01/C16)',
                 'datetime.date/datetime -> model (symx/models/dt.py)']
    chk.outside = ['local=True (wall clock)', 'Epoch(Epoch) / Epoch(JDE) end to end in one exploration (composed from its parts)',
                   'the 1e-8 day under IEEE rounding for the JDE -> fields -> JDE chain (exact arithmetic + cut lemmas of the calendar part)']
    chk.assumptions = ['field ranges are bit-precise (mode F); recombination and operator algebra in exact arithmetic (floats as reals)']
    return chk.finish()
