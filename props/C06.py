"""C06 -- precession is a rigid, invertible rotation.

Real code executed symbolically (mode T): Coordinates.precession_equatorial and precession_ecliptical, cut at the point
where the three precession angles have been built: the rotation part is explored with ARBITRARY angles (so for every
pair of epochs at once), the angle polynomials are compared with the IAU 1976 expressions as polynomial identities.
"""
import ast
import z3

from symx import core, loader, harness, slicer, trig
from symx.core import Num, Fr

PID = 'C06'

REPLAY = r'''
from pymeeus.Angle import Angle
from pymeeus.Epoch import Epoch, JDE2000
import pymeeus.Coordinates as C
from math import sin, cos, radians, degrees, atan2, asin, sqrt
bad = None
k = INPUTS['kind']
def unit(lon, lat):
    return (cos(radians(lat)) * cos(radians(lon)), cos(radians(lat)) * sin(radians(lon)), sin(radians(lat)))
def angles_eq(tt, t):
    zeta = t * (2306.2181 + tt * (1.39656 - 0.000139 * tt) + t * (0.30188 - 0.000344 * tt + 0.017998 * t))
    z = t * (2306.2181 + tt * (1.39656 - 0.000139 * tt) + t * (1.09468 + 0.000066 * tt + 0.018203 * t))
    th = t * (2004.3109 + tt * (-0.85330 - 0.000217 * tt) + t * (-(0.42665 + 0.000217 * tt) - 0.041833 * t))
    return [radians(v / 3600.0) for v in (zeta, z, th)]
if k == 'equatorial':
    ra, dec = F(INPUTS['ra']), F(INPUTS['dec'])
    y0, y1 = F(INPUTS.get('y0', 2000.0)), F(INPUTS.get('y1', 2050.0))
    e0, e1 = Epoch(JDE2000.jde() + (y0 - 2000.0) * 365.25), Epoch(JDE2000.jde() + (y1 - 2000.0) * 365.25)
    r, d = C.precession_equatorial(e0, e1, Angle(ra), Angle(dec))
    zeta, z, th = angles_eq((e0 - JDE2000) / 36525.0, (e1 - e0) / 36525.0)
    a, dl = radians(ra), radians(dec)
    A = cos(dl) * sin(a + zeta); B = cos(th) * cos(dl) * cos(a + zeta) - sin(th) * sin(dl); Cc = sin(th) * cos(dl) * cos(a + zeta) + cos(th) * sin(dl)
    want = unit(degrees(atan2(A, B) + z), degrees(asin(max(-1.0, min(1.0, Cc)))))
    got = unit(r(), d())
    err = sqrt(sum((g - w) ** 2 for g, w in zip(got, want)))
    if err > 1e-7:
        bad = 'precession_equatorial(%r -> %r, ra=%r, dec=%r) = (%r, %r): %.3g rad away from the rotation' % (y0, y1, ra, dec, r(), d(), err)
elif k == 'ecliptical':
    lon, lat = F(INPUTS['lon']), F(INPUTS['lat'])
    e0, e1 = Epoch(JDE2000.jde()), Epoch(JDE2000.jde() + 300 * 365.25)
    l1, b1 = C.precession_ecliptical(e0, e1, Angle(lon), Angle(lat))
    l2, b2 = C.precession_ecliptical(e1, e0, l1, b1)
    err = sqrt(sum((g - w) ** 2 for g, w in zip(unit(l2(), b2()), unit(lon, lat))))
    if err > 2e-8:
        bad = 'precession_ecliptical there and back misses by %.3g rad at lon=%r lat=%r' % (err, lon, lat)
elif k == 'poly':
    e0, e1 = Epoch(JDE2000.jde() + 2.0 * 36525), Epoch(JDE2000.jde() + 5.0 * 36525)
    r1, d1 = C.precession_equatorial(e0, e1, Angle(40.0), Angle(30.0))
    r2, d2 = C.precession_equatorial(e1, e0, r1, d1)
    err = sqrt(sum((g - w) ** 2 for g, w in zip(unit(r2(), d2()), unit(40.0, 30.0))))
    zeta, z, th = angles_eq(2.0, 3.0)
    a, dl = radians(40.0), radians(30.0)
    A = cos(dl) * sin(a + zeta); B = cos(th) * cos(dl) * cos(a + zeta) - sin(th) * sin(dl); Cc = sin(th) * cos(dl) * cos(a + zeta) + cos(th) * sin(dl)
    want = unit(degrees(atan2(A, B) + z), degrees(asin(Cc)))
    e2 = sqrt(sum((g - w) ** 2 for g, w in zip(unit(r1(), d1()), want)))
    if e2 > 1e-9:
        bad = 'precession angles differ from the IAU 1976 polynomials: direction off by %.3g rad for J2200 -> J2500' % e2
if bad:
    print('REPRODUCED %s: %s' % (SITE, bad)); sys.exit(1)
print('not reproduced'); sys.exit(0)
'''


def at(name):
    return z3.Real('c_' + name), z3.Real('s_' + name)


def task_equatorial(branch):
    """rotation part of precession_equatorial (statements after `theta = Angle(0, 0, theta)`) for arbitrary zeta, z, theta"""
    t = harness.Task('precession_equatorial %s' % branch)
    Angle = loader.mod('Angle').Angle
    trig.install_reduce_summary(Angle)
    tail, _s = slicer.tail_after('Coordinates', 'precession_equatorial', 'theta = Angle(0, 0, theta)', 'start_ra, start_dec, zeta, z, theta')
    dec_rng = (-90, 85) if branch == 'normal' else (85, 90)
    pre = trig.angle_pre('ra', 0, 360) + trig.angle_pre('dec', -90, 90) + trig.angle_pre('zeta', -90, 90) + trig.angle_pre('zz', -90, 90) + trig.angle_pre('theta', -90, 90)
    pre += [z3.Real('c_dec') > 0, z3.Real('v_ra') < 360]
    pre += [z3.Real('v_dec') <= 85] if branch == 'normal' else [z3.Real('v_dec') > 85, z3.Real('c_theta') > 0]

    def fn():
        ra, _ = trig.input_angle(None, 'ra', 0, 360)
        dec, _ = trig.input_angle(None, 'dec', -90, 90)
        ze, _ = trig.input_angle(None, 'zeta', -90, 90)
        zz, _ = trig.input_angle(None, 'zz', -90, 90)
        th, _ = trig.input_angle(None, 'theta', -90, 90)
        fra, fdec = tail(Angle(ra), Angle(dec), Angle(ze), Angle(zz), Angle(th))
        atoms = core.CUR.atoms
        a_ra = [k for k, q in (fra._deg.ang.lin.items() if fra._deg.ang is not None else []) if q and 'X' in atoms[k]]
        a_dec = [k for k, q in (fdec._deg.ang.lin.items() if fdec._deg.ang is not None else []) if q]
        return (fra._deg, fdec._deg, atoms[a_ra[0]] if a_ra else None, atoms[a_dec[0]] if a_dec else None,
                dict(fra._deg.ang.lin) if fra._deg.ang is not None else None, dict(fdec._deg.ang.lin) if fdec._deg.ang is not None else None)
    ctx, paths = core.explore(fn, pre, trig='atoms', check_div0=False, timeout_ms=20000, max_paths=100, max_seconds=600)
    t.absorb_ctx(ctx, paths)
    (ca, sa), (cd, sd), (cz, sz), (cth, sth) = at('ra'), at('dec'), at('zeta'), at('theta')
    caz, saz = ca * cz - sa * sz, sa * cz + ca * sz            # cos / sin (alpha + zeta)
    A = cd * saz
    B = cth * cd * caz - sth * sd
    Cc = sth * cd * caz + cth * sd
    inp = lambda mo: {'kind': 'equatorial', 'ra': 30.0, 'dec': 88.0 if branch != 'normal' else 40.0}
    bd = 'every direction with declination %s, ARBITRARY precession angles zeta, z, theta (every pair of epochs); real arithmetic' % (
        '<= 85 degrees' if branch == 'normal' else 'above 85 degrees')
    for i, p in enumerate(paths):
        tag = '@%s.p%d' % (branch, i)
        if p.kind != 'ok':
            t.ob('rotation part total' + tag, 'sat' if p.kind == 'exc' else 'unwind', 0, bd)
            continue
        fra, fdec, ara, adec, lra, ldec = p.val
        t.reach += 3
        q = dict(timeout_ms=60000, retry=False)
        if ara is None or lra is None:
            # atan2(0, 0) = 0: legitimate only when the rotated vector points at the pole (A = B = 0)
            t.decide(ctx, p, 'right ascension without an atan2 only when the rotated vector is at the pole (A = B = 0)' + tag, z3.Or(A != 0, B != 0), 'C06.eq', inp,
                     'right ascension lost its atan2 form', bd, **q)
            continue
        t.decide(ctx, p, 'right ascension = atan2(A, B) + z with (B, A) the rotated vector\'s equatorial components' + tag,
                 z3.Or(ara['X'] != B, ara['Y'] != A, z3.BoolVal(lra.get('zz') != 1)), 'C06.eq', inp, 'right ascension', bd, **q)
        # declination: its sine must be the third component C of the rotated vector
        if adec is not None and 'Z' in adec and adec['key'][0] == 'asin':
            t.decide(ctx, p, 'sin(declination) = C, the third component of the rotated vector' + tag, adec['Z'] != Cc, 'C06.eq', inp, 'declination', bd, **q)
        elif adec is not None and 'Z' in adec and adec['key'][0] == 'acos':
            w = adec['Z']
            t.decide(ctx, p, 'near-pole branch: cos(declination) = sqrt(A^2 + B^2) (declination = arccos, north of +85)' + tag,
                     z3.Or(w * w != A * A + B * B, w < 0), 'C06.eq', inp, 'declination (pole branch)', bd, **q)
        else:
            # a plain number turned into an angle: the declination is not tied to the rotated vector at all
            t.ob('declination is the latitude of the rotated vector' + tag, 'sat', 0, bd)
            t.cand('C06.eq', inp(None), 'declination is not derived from the rotated vector (near-pole branch returns a length as an angle)')
            continue
        t.decide(ctx, p, 'the rotated vector has unit length (rigid rotation)' + tag, A * A + B * B + Cc * Cc != 1, 'C06.eq', inp, 'norm', bd, use_pc=False, **q)
    return t


def task_ecliptical(_):
    t = harness.Task('precession_ecliptical')
    Angle = loader.mod('Angle').Angle
    trig.install_reduce_summary(Angle)
    tail, _s = slicer.tail_after('Coordinates', 'precession_ecliptical', 'pie += 174.876384', 'start_lon, start_lat, eta, pie, p')
    pre = trig.angle_pre('lon', 0, 360) + trig.angle_pre('lat', -90, 90) + trig.angle_pre('eta', -90, 90) + trig.angle_pre('pie', 0, 360) + trig.angle_pre('pp', -90, 90)
    pre += [z3.Real('c_lat') > 0, z3.Real('v_lon') < 360, z3.Real('v_pie') < 360]

    def fn():
        lon, _ = trig.input_angle(None, 'lon', 0, 360)
        lat, _ = trig.input_angle(None, 'lat', -90, 90)
        eta, _ = trig.input_angle(None, 'eta', -90, 90)
        pie, _ = trig.input_angle(None, 'pie', 0, 360)
        pp, _ = trig.input_angle(None, 'pp', -90, 90)
        fl, fb = tail(Angle(lon), Angle(lat), Angle(eta), Angle(pie), Angle(pp))
        atoms = core.CUR.atoms
        a_l = [k for k, q in (fl._deg.ang.lin.items() if fl._deg.ang is not None else []) if q and 'X' in atoms[k]]
        a_b = [k for k, q in (fb._deg.ang.lin.items() if fb._deg.ang is not None else []) if q]
        return atoms[a_l[0]] if a_l else None, atoms[a_b[0]] if a_b else None, dict(fl._deg.ang.lin) if fl._deg.ang is not None else None
    ctx, paths = core.explore(fn, pre, trig='atoms', check_div0=False, timeout_ms=20000, max_paths=100, max_seconds=600)
    t.absorb_ctx(ctx, paths)
    (cl, sl), (cb, sb), (ce, se), (cp, sp) = at('lon'), at('lat'), at('eta'), at('pie')
    cpl, spl = cp * cl + sp * sl, sp * cl - cp * sl           # cos / sin (pie - lon)
    A = ce * cb * spl - se * sb
    B = cb * cpl
    Cc = ce * sb + se * cb * spl
    inp = lambda mo: {'kind': 'ecliptical', 'lon': 149.48194, 'lat': 61.5}
    bd = 'every direction off the ecliptic poles, ARBITRARY angles eta, Pi, p; real arithmetic'
    for i, p in enumerate(paths):
        tag = '@p%d' % i
        if p.kind != 'ok':
            t.ob('rotation part total' + tag, 'sat' if p.kind == 'exc' else 'unwind', 0, bd)
            continue
        al, ab, ll = p.val
        t.reach += 2
        q = dict(timeout_ms=60000, retry=False)
        if al is None or ab is None or 'Z' not in ab:
            t.decide(ctx, p, 'longitude without an atan2 only when the rotated vector is at the pole (A = B = 0)' + tag, z3.Or(A != 0, B != 0), 'C06.ecl', inp, 'lost form', bd, **q)
            continue
        t.decide(ctx, p, 'longitude = p + Pi - atan2(A, B)' + tag, z3.Or(al['X'] != B, al['Y'] != A, z3.BoolVal(not (ll.get('pp') == 1 and ll.get('pie') == 1))),
                 'C06.ecl', inp, 'longitude', bd, **q)
        t.decide(ctx, p, 'sin(latitude) = C' + tag, ab['Z'] != Cc, 'C06.ecl', inp, 'latitude', bd, **q)
    return t


def task_polynomials(_):
    """the three equatorial precession angles as polynomials in (T, t): identical to the IAU 1976 expressions (Meeus 21.2)"""
    t = harness.Task('precession angle polynomials')
    Angle = loader.mod('Angle').Angle
    E = loader.mod('Epoch')
    head, _s = slicer.head_until('Coordinates', 'precession_equatorial', 'zeta = Angle(0, 0, zeta)', 'start_epoch, final_epoch, start_ra, start_dec, p_motion_ra=0.0, p_motion_dec=0.0',
                                 '(tt, t, zeta, z, theta)', before=True)
    j0, j1 = Num.real_var('j0'), Num.real_var('j1')
    e0, e1 = E.Epoch(), E.Epoch()
    pre = [j0.e >= 0, j0.e <= 5400000, j1.e >= 0, j1.e <= 5400000]

    def fn():
        e0._jde, e1._jde = j0, j1
        return head(e0, e1, Angle(Num.const(10.0)), Angle(Num.const(20.0)))
    ctx, paths = core.explore(fn, pre, check_div0=False, timeout_ms=20000, max_paths=50)
    t.absorb_ctx(ctx, paths)
    T = (j0.e - z3.RealVal('2451545')) / 36525
    tt_ = (j1.e - j0.e) / 36525
    R = lambda v: z3.RealVal(v)
    zeta_s = tt_ * (R('2306.2181') + T * (R('1.39656') - R('0.000139') * T) + tt_ * (R('0.30188') - R('0.000344') * T + R('0.017998') * tt_))
    z_s = tt_ * (R('2306.2181') + T * (R('1.39656') - R('0.000139') * T) + tt_ * (R('1.09468') + R('0.000066') * T + R('0.018203') * tt_))
    th_s = tt_ * (R('2004.3109') + T * (R('-0.85330') - R('0.000217') * T) + tt_ * (-(R('0.42665') + R('0.000217') * T) - R('0.041833') * tt_))
    for i, p in enumerate(paths):
        if p.kind != 'ok':
            t.ob('angle polynomials total@p%d' % i, 'sat' if p.kind == 'exc' else 'unwind', 0, '')
            continue
        a_tt, a_t, zeta, z, theta = [core.lift(v).re() for v in p.val]
        t.reach += 1
        t.decide(ctx, p, 'zeta, z, theta are the IAU 1976 polynomials in T = (start - J2000)/36525 and t = (final - start)/36525; zero interval -> zero angles@p%d' % i,
                 z3.Or(a_tt != T, a_t != tt_, zeta != zeta_s, z != z_s, theta != th_s), 'C06.poly', lambda mo: {'kind': 'poly'}, 'angle polynomials',
                 'all pairs of epochs (symbolic real JDEs)', timeout_ms=60000, retry=False)
    return t


def task_matrix(_):
    t = harness.Task('rotation matrix')
    ux, uy, uz, cz, sz, cth, sth = z3.Reals('ux uy uz cz sz cth sth')
    A = sz * ux + cz * uy
    B = cth * (cz * ux - sz * uy) - sth * uz
    Cc = sth * (cz * ux - sz * uy) + cth * uz
    s = z3.Solver()
    s.add(cz * cz + sz * sz == 1, cth * cth + sth * sth == 1, A * A + B * B + Cc * Cc != ux * ux + uy * uy + uz * uz)
    t.ob('spec: (B, A, C) = M(zeta, theta) u with M orthogonal: lengths, hence angles between any two stars, are preserved', str(s.check()), 0, 'all vectors, all angles')
    t.reach += 1
    # ecliptical form: (A, B, C) as written in the harness from Meeus 21.5 is a rotation of the unit vector of (lon, lat)
    cb, sb, ce, se, cq, sq = z3.Reals('cb sb ce se cq sq')       # q = Pi - lon
    A2 = ce * cb * sq - se * sb
    B2 = cb * cq
    C2 = ce * sb + se * cb * sq
    s = z3.Solver()
    s.set('timeout', 120000)
    s.add(cb * cb + sb * sb == 1, ce * ce + se * se == 1, cq * cq + sq * sq == 1, A2 * A2 + B2 * B2 + C2 * C2 != 1)
    t.ob('spec: the ecliptical (A, B, C) is a unit vector for every direction and every eta, Pi (rigid rotation)', str(s.check()), 0, 'all angles')
    t.reach += 1
    return t


def dispatch(job):
    k, a = job
    return {'eq': task_equatorial, 'ecl': task_ecliptical, 'poly': task_polynomials, 'mat': task_matrix}[k](a)


def main(tier):
    loader.install()
    chk = harness.Check(PID, tier)
    chk.replays = {'C06.eq': REPLAY, 'C06.ecl': REPLAY, 'C06.poly': REPLAY}
    chk.functions = ['Coordinates.precession_equatorial (angle polynomials head, rotation tail)', 'Coordinates.precession_ecliptical (rotation tail)', 'Angle']
    chk.run(dispatch, [('eq', 'normal'), ('eq', 'pole'), ('ecl', 0), ('poly', 0), ('mat', 0)], 'precession as a rotation (mode T)')
    chk.bounds = {'directions': 'all off the poles of the frame', 'precession angles': 'arbitrary (so every pair of epochs) for the rotation clauses', 'epochs': 'all JDE in [0, 5.4e6] for the polynomial identity'}
    chk.stubs = ['Angle.reduce_deg on angle-provenanced values -> its contract r = x - 360k, |r| < 360, same sign (C03)']
    chk.outside = ['there-and-back as a numeric statement for the ecliptical polynomials, equatorial vs ecliptical route through the mean obliquity, FK4 (Newcomb) vs FK5, '
                   'orbital_equinox2equinox, motion_in_space, proper motion', 'IEEE rounding (real arithmetic)']
    chk.assumptions = ['mode T: real arithmetic, trig atoms', 'there-and-back for the equatorial form follows from: rotation with the IAU angles + orthogonality; the inverse rotation being the one '
                       'for swapped epochs is a property of the IAU polynomials themselves and is not decided']
    return chk.finish()
