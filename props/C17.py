"""C17 -- curve fitting returns the least-squares solution.

Real code executed symbolically (mode R): CurveFitting.__init__/set/_compute_parameters, linear_fitting,
quadratic_fitting, general_fitting (accumulation head and solving tail sliced from the current source),
correlation_coeff.
"""
import ast
import itertools
import z3

from symx import core, loader, harness, slicer
from symx.core import Num, Fr

PID = 'C17'
TOLV = Fr(1, 10 ** 10)
SUMS = ['_N', '_P', '_Q', '_R', '_S', '_T', '_U', '_V', '_W']


def R(name):
    return Num.real_var(name)


def zabs(e):
    return z3.If(e >= 0, e, -e)


def free_state(CurveFitting, tag=''):
    cf = CurveFitting()
    vs = {}
    for k in SUMS:
        vs[k] = R(k[1:] + tag)
        setattr(cf, k, vs[k])
    return cf, vs


REPLAY = r'''
from pymeeus.CurveFitting import CurveFitting
from fractions import Fraction as Fq
xs = [F(v) for v in INPUTS.get('xs', [])]; ys = [F(v) for v in INPUTS.get('ys', [])]
bad = None
def exact_normal(basis, xs, ys):
    """exact rational least-squares solution (Gaussian elimination on the normal equations)"""
    X = [Fq(v) for v in xs]; Y = [Fq(v) for v in ys]
    k = len(basis)
    A = [[sum(basis[i](x) * basis[j](x) for x in X) for j in range(k)] + [sum(basis[i](x) * y for x, y in zip(X, Y))] for i in range(k)]
    for c in range(k):
        piv = next((r for r in range(c, k) if A[r][c] != 0), None)
        if piv is None:
            return None
        A[c], A[piv] = A[piv], A[c]
        A[c] = [v / A[c][c] for v in A[c]]
        for r in range(k):
            if r != c:
                A[r] = [a - A[r][c] * b for a, b in zip(A[r], A[c])]
    return [float(A[i][k]) for i in range(k)]
if SITE in ('C17.linear', 'C17.quadratic', 'C17.general', 'C17.general2'):
    cf = CurveFitting(xs, ys)
    basis = {'C17.linear': [lambda x: x, lambda x: Fq(1)], 'C17.quadratic': [lambda x: x * x, lambda x: x, lambda x: Fq(1)],
             'C17.general': [lambda x: x * x, lambda x: x, lambda x: Fq(1)], 'C17.general2': [lambda x: x, lambda x: Fq(1)]}[SITE]
    want = exact_normal(basis, xs, ys)
    try:
        if SITE == 'C17.linear':
            got = cf.linear_fitting()
        elif SITE == 'C17.quadratic':
            got = cf.quadratic_fitting()
        elif SITE == 'C17.general':
            got = cf.general_fitting(lambda x: x * x, lambda x: x, lambda x: 1.0)
        else:
            got = cf.general_fitting(lambda x: x, lambda x: 1.0)[:2]
    except Exception as ex:
        got = ex
    if want is not None and (isinstance(got, Exception) or any(abs(g - w) > 1e-6 * max(1.0, abs(w)) for g, w in zip(got, want))):
        bad = 'fit = %r, exact solution of the normal equations = %r' % (got, want)
elif SITE == 'C17.corr':
    cf = CurveFitting(xs, ys)
    try:
        r = cf.correlation_coeff()
    except ZeroDivisionError:
        r = None
    if r is not None and abs(r) > 1 + 1e-9:
        bad = 'correlation coefficient %r' % r
if bad:
    print('REPRODUCED %s: xs=%r ys=%r: %s' % (SITE, xs, ys, bad)); sys.exit(1)
print('not reproduced'); sys.exit(0)
'''


def task_normal(_):
    """normal equations as identities over FREE sums (so for data sets of any size)"""
    t = harness.Task('normal equations')
    CurveFitting = loader.mod('CurveFitting').CurveFitting
    tol = z3.RealVal(str(TOLV))
    # ---- linear
    cf, v = free_state(CurveFitting)
    ctx, paths = core.explore(lambda: cf.linear_fitting(), [], max_paths=50)
    t.absorb_ctx(ctx, paths)
    N, P, Q, T, U = [v[k].e for k in ('_N', '_P', '_Q', '_T', '_U')]
    d = N * Q - P * P
    for i, p in enumerate(paths):
        tag = '@lin.p%d' % i
        t.reach += 1
        if p.kind == 'exc':
            ok = isinstance(p.exc, ZeroDivisionError)
            t.decide(ctx, p, 'linear: ZeroDivisionError exactly for a (numerically) singular system' + tag,
                     zabs(d) >= tol if ok else z3.BoolVal(True), 'C17.linear', lambda mo: {}, 'refusal', 'free sums')
            continue
        a, b = core.lift(p.val[0]).re(), core.lift(p.val[1]).re()
        t.decide(ctx, p, 'linear: coefficients satisfy both normal equations' + tag, z3.Or(a * Q + b * P != U, a * P + b * N != T, zabs(d) < tol),
                 'C17.linear', lambda mo: {}, 'normal equations', 'all real sums N, P, Q, T, U with non-singular system')
    # ---- quadratic
    cf, v = free_state(CurveFitting)
    ctx, paths = core.explore(lambda: cf.quadratic_fitting(), [], max_paths=50)
    t.absorb_ctx(ctx, paths)
    N, P, Q, Rr, S, T, U, V = [v[k].e for k in ('_N', '_P', '_Q', '_R', '_S', '_T', '_U', '_V')]
    for i, p in enumerate(paths):
        tag = '@quad.p%d' % i
        t.reach += 1
        if p.kind == 'exc':
            t.ob('quadratic: only ZeroDivisionError' + tag, 'unsat' if isinstance(p.exc, ZeroDivisionError) else 'sat', 0, 'free sums')
            continue
        a, b, c = [core.lift(x).re() for x in p.val]
        t.decide(ctx, p, 'quadratic: coefficients satisfy the three normal equations' + tag,
                 z3.Or(a * S + b * Rr + c * Q != V, a * Rr + b * Q + c * P != U, a * Q + b * P + c * N != T),
                 'C17.quadratic', lambda mo: {}, 'normal equations', 'all real sums with non-singular system', timeout_ms=60000)
    # ---- general: solving tail on free sums
    tail, _src = slicer.tail_after('CurveFitting', 'CurveFitting.general_fitting', ast.For, 'self, m, p, q, r, s, t, u, v, w')
    g = {k: R('g' + k) for k in 'mpqrstuvw'}
    cf = CurveFitting()
    gram = [g['m'].e >= 0, g['r'].e >= 0, g['t'].e >= 0]      # sums of squares
    ctx, paths = core.explore(lambda: tail(cf, *[g[k] for k in 'mpqrstuvw']), gram, max_paths=100, fresh_div=True)
    t.absorb_ctx(ctx, paths)
    m, pp, q, r, s, tt, u, vv, w = [g[k].e for k in 'mpqrstuvw']
    for i, p in enumerate(paths):
        tag = '@gen.p%d' % i
        t.reach += 1
        if p.kind == 'exc':
            if not isinstance(p.exc, ZeroDivisionError):
                t.ob('general: only ZeroDivisionError' + tag, 'sat', 0, 'free sums')
                continue
            # refusal is legitimate only when the normal equations are (numerically) singular: three functions
            # -> 3x3 determinant; third function absent (q = s = t = w = 0) -> the 2x2 determinant
            det3 = m * r * tt + 2 * pp * q * s - m * s * s - r * q * q - tt * pp * pp
            two = z3.And(q == 0, s == 0, tt == 0, w == 0, zabs(m * r - pp * pp) >= tol, m >= tol, r >= tol)
            t.decide(ctx, p, 'general: a two-function basis (third function absent) with a regular 2x2 system is not refused' + tag, two,
                     'C17.general2', lambda mo: {'xs': ['0', '1', '2'], 'ys': ['1', '3', '4']}, 'two-function basis refused', 'free sums')
            continue
        a, b, c = [core.lift(x).re() for x in p.val]
        single = core.lift(p.val[1]).cval() == 0 and core.lift(p.val[2]).cval() == 0
        info = lambda mo: {'xs': ['0', '1', '2', '4'], 'ys': ['1', '3', '4', '9']}
        double = (not single) and core.lift(p.val[2]).cval() == 0
        if double:
            # two-function case (third function null): the 2x2 normal equations
            for k, eq in enumerate((a * m + b * pp != u, a * pp + b * r != vv)):
                t.decide(ctx, p, 'general: two-function case satisfies its normal equation %d' % (k + 1) + tag, eq, 'C17.general2',
                         lambda mo: {'xs': ['0', '1', '2'], 'ys': ['1', '3', '4']}, 'normal equations', 'free sums', timeout_ms=60000)
            continue
        if single:
            # documented one-function case (second and third function numerically null): a = u/m, b = c = 0
            t.decide(ctx, p, 'general: one-function case solves its normal equation' + tag, a * m != u, 'C17.general', info, 'normal equation', 'free sums')
            continue
        for k, eq in enumerate((a * m + b * pp + c * q != u, a * pp + b * r + c * s != vv, a * q + b * s + c * tt != w)):
            t.decide(ctx, p, 'general: coefficients satisfy normal equation %d' % (k + 1) + tag, eq, 'C17.general', info, 'normal equations',
                     'all real Gram sums with regular system (identity from the quotient definitions alone)', timeout_ms=60000, use_pc=False)
    # ---- general with basis (x^2, x, 1) equals quadratic, with (x, 1) equals linear: on the sums the basis gives
    cfq, v = free_state(CurveFitting)
    N, P, Q, Rr, S, T, U, V = [v[k] for k in ('_N', '_P', '_Q', '_R', '_S', '_T', '_U', '_V')]

    def both3():
        return cfq.quadratic_fitting(), tail(cfq, S, Rr, Q, Q, P, N, V, U, T)
    ctx, paths = core.explore(both3, [N.e >= 2, Q.e >= 0, S.e >= 0], max_paths=100)
    t.absorb_ctx(ctx, paths)
    for i, p in enumerate(paths):
        tag = '@gen=quad.p%d' % i
        t.reach += 1
        if p.kind != 'ok':
            continue          # refusals of either are covered above
        (a1, b1, c1), (a2, b2, c2) = p.val
        bad = z3.Or(core.lift(a1).re() != core.lift(a2).re(), core.lift(b1).re() != core.lift(b2).re(), core.lift(c1).re() != core.lift(c2).re())
        t.decide(ctx, p, 'general fit on the sums of the basis (x^2, x, 1) = quadratic fit' + tag, bad, 'C17.general',
                 lambda mo: {'xs': ['0', '1', '2', '4'], 'ys': ['1', '3', '4', '9']}, 'general vs quadratic', 'free sums', timeout_ms=60000)

    def both2():
        return cfq.linear_fitting(), tail(cfq, Q, P, 0.0, N, 0.0, 0.0, U, T, 0.0)
    ctx, paths = core.explore(both2, [N.e >= 2, Q.e >= 0], max_paths=100)
    t.absorb_ctx(ctx, paths)
    d2 = N.e * Q.e - P.e * P.e
    for i, p in enumerate(paths):
        tag = '@gen=lin.p%d' % i
        t.reach += 1
        if p.kind == 'exc':
            # linear_fitting itself refused -> fine; otherwise the general routine refused a regular two-function problem
            t.decide(ctx, p, 'general fit with (x, 1) is not refused where the linear fit exists' + tag,
                     z3.And(zabs(d2) >= tol, Q.e >= tol), 'C17.general2', lambda mo: {'xs': ['0', '1', '2'], 'ys': ['1', '3', '4']},
                     'general_fitting(x, 1) raised %r' % (p.exc,), 'free sums')
            continue
        if p.kind != 'ok':
            continue
        (a1, b1), (a2, b2, c2) = p.val
        bad = z3.Or(core.lift(a1).re() != core.lift(a2).re(), core.lift(b1).re() != core.lift(b2).re(), core.lift(c2).re() != 0)
        t.decide(ctx, p, 'general fit on the sums of the basis (x, 1) = linear fit' + tag, bad, 'C17.general2',
                 lambda mo: {'xs': ['0', '1', '2'], 'ys': ['1', '3', '4']}, 'general vs linear', 'free sums', timeout_ms=60000)
    return t


def task_sums(n):
    """the accumulated sums are the defining sums, for every input order and form (n symbolic points)"""
    t = harness.Task('sums n=%d' % n)
    CurveFitting = loader.mod('CurveFitting').CurveFitting
    xs = [R('x%d' % i) for i in range(n)]
    ys = [R('y%d' % i) for i in range(n)]
    want = {'_N': z3.RealVal(n), '_P': sum(x.e for x in xs), '_Q': sum(x.e * x.e for x in xs), '_R': sum(x.e * x.e * x.e for x in xs),
            '_S': sum(x.e * x.e * x.e * x.e for x in xs), '_T': sum(y.e for y in ys), '_U': sum(x.e * y.e for x, y in zip(xs, ys)),
            '_V': sum(x.e * x.e * y.e for x, y in zip(xs, ys)), '_W': sum(y.e * y.e for y in ys)}
    perms = list(itertools.permutations(range(n)))
    if n >= 4:
        perms = perms[::5]
    forms = ('lists', 'tuples', 'scalars', 'copy')
    for k, pm in enumerate(perms):
        form = forms[k % len(forms)]
        px = [xs[i] for i in pm]
        py = [ys[i] for i in pm]

        def build():
            if form == 'lists':
                return CurveFitting(list(px), list(py))
            if form == 'tuples':
                return CurveFitting(tuple(px), tuple(py))
            if form == 'copy':
                return CurveFitting(CurveFitting(list(px), list(py)))
            args = []
            for a, b in zip(px, py):
                args += [a, b]
            return CurveFitting(*args)
        if form == 'scalars' and n < 2:
            continue
        ctx, paths = core.explore(lambda: build(), [], max_paths=20)
        t.absorb_ctx(ctx, paths)
        for i, p in enumerate(paths):
            tag = '@n%d.%s.%s.p%d' % (n, ''.join(map(str, pm)), form, i)
            t.reach += 1
            if p.kind != 'ok':
                t.ob('construction total' + tag, 'sat', 0, '')
                t.cand('C17.sums', {'n': n, 'form': form}, 'raised %r' % (p.exc,))
                continue
            cf = p.val
            try:
                bad = z3.Or(*[core.lift(getattr(cf, k_)).re() != want[k_] for k_ in SUMS])
            except AttributeError as e:
                t.ob('sums present' + tag, 'sat', 0, '')
                t.cand('C17.sums', {'n': n, 'form': form}, 'missing %s' % e)
                continue
            t.decide(ctx, p, 'accumulated sums = defining sums (any order, any input form)' + tag, bad, 'C17.sums',
                     lambda mo, form=form, pm=pm: {'n': n, 'form': form, 'perm': list(pm)}, 'sums', '%d symbolic points, order %s, form %s' % (n, list(pm), form))
    # accumulation loop of general_fitting with three arbitrary functions (values free per point)
    head, _src = slicer.head_until('CurveFitting', 'CurveFitting.general_fitting', ast.For, 'self, f0, f1, f2', '(m, p, q, r, s, t, u, v, w)')
    F = [[R('f%d_%d' % (k, i)) for i in range(n)] for k in range(3)]
    cf = CurveFitting()
    cf._x = list(xs)
    cf._y = list(ys)
    idx = {id(x): i for i, x in enumerate(xs)}
    fs = [lambda x, k=k: F[k][idx[id(x)]] for k in range(3)]
    ctx, paths = core.explore(lambda: head(cf, *fs), [], max_paths=20)
    t.absorb_ctx(ctx, paths)
    wantg = [sum(F[a][i].e * F[b][i].e for i in range(n)) for (a, b) in ((0, 0), (0, 1), (0, 2), (1, 1), (1, 2), (2, 2))] + \
            [sum(ys[i].e * F[k][i].e for i in range(n)) for k in range(3)]
    for i, p in enumerate(paths):
        t.reach += 1
        if p.kind != 'ok':
            t.ob('general accumulation total@n%d.p%d' % (n, i), 'sat', 0, '')
            continue
        bad = z3.Or(*[core.lift(g).re() != w for g, w in zip(p.val, wantg)])
        t.decide(ctx, p, 'general_fitting accumulates the Gram sums of its three functions@n%d.p%d' % (n, i), bad, 'C17.sums',
                 lambda mo: {'n': n, 'form': 'general'}, 'Gram sums', '%d symbolic points, arbitrary function values' % n)
    return t


def task_corr(n):
    t = harness.Task('correlation n=%d' % n)
    CurveFitting = loader.mod('CurveFitting').CurveFitting
    xs = [R('x%d' % i) for i in range(n)]
    ys = [R('y%d' % i) for i in range(n)]

    def inp(mo):
        return {'xs': [str(harness.meval(mo, v)) for v in xs], 'ys': [str(harness.meval(mo, v)) for v in ys]}
    ctx, paths = core.explore(lambda: CurveFitting(list(xs), list(ys)).correlation_coeff(), [], max_paths=50, timeout_ms=30000)
    t.absorb_ctx(ctx, paths)
    sx, sy = sum(x.e for x in xs), sum(y.e for y in ys)
    Dx = n * sum(x.e * x.e for x in xs) - sx * sx
    Dy = n * sum(y.e * y.e for y in ys) - sy * sy
    for i, p in enumerate(paths):
        tag = '@n%d.p%d' % (n, i)
        t.reach += 1
        if p.kind == 'exc':
            if isinstance(p.exc, (ZeroDivisionError, ValueError)):
                t.decide(ctx, p, 'correlation refuses (ZeroDivisionError) only degenerate data' + tag, z3.And(Dx > 0, Dy > 0), 'C17.corr', inp, 'refusal', '%d symbolic points' % n)
            else:
                t.ob('correlation exception class' + tag, 'sat', 0, '')
            continue
        r = core.lift(p.val).re()
        t.decide(ctx, p, 'correlation coefficient in [-1, 1]' + tag, z3.Or(r > 1, r < -1), 'C17.corr', inp, 'range', '%d symbolic points' % n, timeout_ms=120000)
        if n == 3:
            # collinear data: y = a x + b, a != 0  ->  r = sign(a)
            a, b = z3.Reals('ca cb')
            col = z3.And(a != 0, *[y.e == a * x.e + b for x, y in zip(xs, ys)])
            t.decide(ctx, p, 'collinear data give +-1' + tag, z3.And(col, z3.Or(z3.And(a > 0, r != 1), z3.And(a < 0, r != -1))), 'C17.corr', inp,
                     'collinear', '3 symbolic collinear points', timeout_ms=120000)
    return t


def task_corr_sums(_):
    """invariance laws as identities over free sums: positive affine map of x leaves r unchanged, negation flips it"""
    t = harness.Task('correlation laws')
    CurveFitting = loader.mod('CurveFitting').CurveFitting
    cf, v = free_state(CurveFitting)
    al, be = R('alpha'), R('beta')
    N, P, Q, T, U, W = [v[k] for k in ('_N', '_P', '_Q', '_T', '_U', '_W')]
    cf2 = CurveFitting()
    for sgn, name in ((1, 'unchanged by x -> alpha*x + beta (alpha > 0)'), (-1, 'changes sign under x -> -alpha*x + beta')):
        def fn():
            a = al * sgn
            cf2._N, cf2._T, cf2._W = N, T, W
            cf2._P = a * P + be * N
            cf2._Q = a * a * Q + 2.0 * a * be * P + be * be * N
            cf2._U = a * U + be * T
            return cf.correlation_coeff(), cf2.correlation_coeff()
        pre = [al.e > 0, N.e >= 2, N.e * Q.e - P.e * P.e > 0, N.e * W.e - T.e * T.e > 0]
        ctx, paths = core.explore(fn, pre, max_paths=50, timeout_ms=30000)
        t.absorb_ctx(ctx, paths)
        for i, p in enumerate(paths):
            t.reach += 1
            if p.kind != 'ok':
                t.ob('correlation law total@%d.p%d' % (sgn, i), 'sat' if p.kind == 'exc' else 'unwind', 0, '')
                continue
            r1, r2 = core.lift(p.val[0]).re(), core.lift(p.val[1]).re()
            t.decide(ctx, p, 'correlation ' + name + '@p%d' % i, r2 != sgn * r1, 'C17.corrlaw', lambda mo: {}, name, 'free sums with positive variances', timeout_ms=120000)
    return t


def task_degenerate(n):
    t = harness.Task('degenerate n=%d' % n)
    CurveFitting = loader.mod('CurveFitting').CurveFitting
    x0 = R('x0')
    ys = [R('y%d' % i) for i in range(n)]
    for name in ('linear_fitting', 'quadratic_fitting', 'correlation_coeff'):
        ctx, paths = core.explore(lambda: getattr(CurveFitting([x0] * n, list(ys)), name)(), [x0.e >= -1000, x0.e <= 1000], max_paths=50)
        t.absorb_ctx(ctx, paths)
        ok = paths and all(p.kind == 'exc' and isinstance(p.exc, ZeroDivisionError) for p in paths)
        t.reach += 1
        t.ob('%s on %d points with one abscissa raises ZeroDivisionError on every path' % (name, n), 'unsat' if ok else 'sat', 0, 'symbolic abscissa and ordinates')
        if not ok:
            t.cand('C17.degenerate', {'name': name, 'n': n}, 'outcomes %r' % [(p.kind, repr(p.exc)) for p in paths][:4])
    return t


def main(tier):
    loader.install()
    chk = harness.Check(PID, tier)
    chk.replays = {k: REPLAY for k in ('C17.linear', 'C17.quadratic', 'C17.general', 'C17.general2', 'C17.corr')}
    chk.replays['C17.sums'] = r'''
from pymeeus.CurveFitting import CurveFitting
xs = [1.5, -2.0, 4.0, 0.5][:INPUTS['n']]; ys = [2.0, 1.0, -3.0, 7.0][:INPUTS['n']]
perm = INPUTS.get('perm', list(range(len(xs))))
px = [xs[i] for i in perm]; py = [ys[i] for i in perm]
form = INPUTS['form']
if form == 'general':
    sys.exit(0)
if form == 'copy':
    cf = CurveFitting(CurveFitting(px, py))
elif form == 'scalars':
    a = []
    for u, v in zip(px, py): a += [u, v]
    cf = CurveFitting(*a)
else:
    cf = CurveFitting(px, py)
want = {'_N': len(xs), '_P': sum(xs), '_Q': sum(x * x for x in xs), '_R': sum(x ** 3 for x in xs), '_S': sum(x ** 4 for x in xs), '_T': sum(ys),
        '_U': sum(x * y for x, y in zip(xs, ys)), '_V': sum(x * x * y for x, y in zip(xs, ys)), '_W': sum(y * y for y in ys)}
for k, w in want.items():
    if abs(getattr(cf, k, float('nan')) - w) > 1e-9 or getattr(cf, k, None) is None:
        print('REPRODUCED sums', form, perm, k, getattr(cf, k, None), w); sys.exit(1)
sys.exit(0)
'''
    chk.replays['C17.degenerate'] = r'''
from pymeeus.CurveFitting import CurveFitting
cf = CurveFitting([2.0] * INPUTS['n'], [1.0, 2.0, 4.0, 8.0][:INPUTS['n']])
try:
    v = getattr(cf, INPUTS['name'])()
    print('REPRODUCED degenerate data returned', v); sys.exit(1)
except ZeroDivisionError:
    sys.exit(0)
except Exception as ex:
    print('REPRODUCED degenerate data raised', repr(ex)); sys.exit(1)
'''
    chk.replays['C17.corrlaw'] = "sys.exit(0)\n"
    chk.functions = ['CurveFitting.__init__', 'CurveFitting.set', 'CurveFitting._compute_parameters', 'CurveFitting.linear_fitting',
                     'CurveFitting.quadratic_fitting', 'CurveFitting.general_fitting (accumulation loop and solving tail, sliced)', 'CurveFitting.correlation_coeff']
    ns = {'CurveFitting': loader.mod('CurveFitting').CurveFitting}
    chk.diff([('lambda a,b,c,d,e,f: CurveFitting([a,b,c],[d,e,f]).linear_fitting()', [1.0, 2.0, 4.0, 2.0, 2.5, 7.0]),
              ('lambda a,b,c,d,e,f,g,h: CurveFitting([a,b,c,d],[e,f,g,h]).quadratic_fitting()', [-2.0, 0.0, 1.0, 3.0, 5.0, 1.0, 0.5, 9.0]),
              ('lambda a,b,c,d,e,f: CurveFitting([a,b,c],[d,e,f]).correlation_coeff()', [1.0, 2.0, 4.0, 2.0, 2.5, 7.0]),
              ('lambda a,b,c,d,e,f,g,h: CurveFitting([a,b,c,d],[e,f,g,h]).general_fitting(lambda x: x*x, lambda x: x, lambda x: 1.0)', [-2.0, 0.0, 1.0, 3.0, 5.0, 1.0, 0.5, 9.0])],
             ns, tol=1e-7, ctx_kw={'check_div0': False})
    chk.run(task_normal, [0], 'normal equations over free sums')
    chk.run(task_sums, [2, 3] + ([4] if tier == 'thorough' else []), 'accumulation of the sums')
    chk.run(task_corr, [2, 3], 'correlation on symbolic data')
    chk.run(task_corr_sums, [0], 'correlation laws')
    chk.run(task_degenerate, [2, 3], 'degenerate data')
    chk.bounds = {'sums': 'free reals: the normal-equation identities hold for data sets of any size', 'accumulation': '2..%d symbolic points, every order (n <= 3), four input forms' % (3 if tier == 'quick' else 4),
                  'correlation range / collinear': '2..3 symbolic points'}
    chk.outside = ['floating-point conditioning ("relative 1e-6 on well-conditioned data"): real arithmetic only', 'fsum modelled as the exact sum',
                   'general_fitting with transcendental basis functions: the functions enter only through their values at the data points, which are free here']
    chk.assumptions = ['mode R: IEEE doubles treated as reals']
    return chk.finish()
