"""C04 -- sexagesimal / right-ascension decomposition and printing are canonical.

Real code executed symbolically in mode F (bit-precise binary64): Angle.deg2dms, dms_tuple, ra_tuple, dms2deg,
dms_str, ra_str.  The str.format calls of the printing routines are captured: per path the shape of the
string is concrete and the printed numbers are solver terms.
"""
import z3

from symx import core, loader, harness, fp
from symx.fp import FNum, FInt, fpv, D, RNE, RTZ

PID = 'C04'


def absf(t):
    return z3.fpAbs(t)


def F(v):
    return fp.to_f(v)


def is_int_valued(v):
    if isinstance(v, (FInt, int)) and not isinstance(v, bool):
        return z3.BoolVal(True)
    t = F(v)
    return z3.fpEQ(t, z3.fpRoundToIntegral(RTZ, t))


def fval(mo, term):
    import struct
    v = fp.fp_model_float(mo, term)
    return {'bits': struct.unpack('>Q', struct.pack('>d', v))[0], 'repr': repr(v)}


REPLAY = r'''
from pymeeus.Angle import Angle
import struct, re
from fractions import Fraction as Fq
x = struct.unpack('>d', struct.pack('>Q', INPUTS['x']['bits']))[0]
a = Angle(x)
ra = INPUTS.get('ra', False)
bad = None
unit = 24 if ra else 360
val = Fq(a()) / 15 if ra else Fq(a())
def check_tuple(tp):
    d, m, s, sign = tp
    if not (d == int(d) and 0 <= d < unit and m == int(m) and 0 <= m < 60 and 0 <= s < 60 and sign in (1.0, -1.0)):
        return 'pieces out of range: %r' % (tp,)
    rec = Fq(sign) * (Fq(d) + Fq(m) / 60 + Fq(s) / 3600)
    if abs(rec - val) > Fq(1, 10 ** 9):
        return 'pieces %r recombine to %r, value %r' % (tp, float(rec), float(val))
if INPUTS['kind'] == 'tuple':
    bad = check_tuple(a.ra_tuple() if ra else a.dms_tuple())
    if bad is None and not ra:
        back = Angle.dms2deg(*[v for v in Angle.deg2dms(x)[:3]]) * Angle.deg2dms(x)[3]
        if abs(back - a()) > 1e-9:
            bad = 'dms2deg(deg2dms(x)) = %r' % back
else:
    fancy, nd = INPUTS['fancy'], INPUTS['n_dec']
    s = a.ra_str(fancy, nd) if ra else a.dms_str(fancy, nd)
    nums = re.findall(r'-?\d+(?:\.\d+)?(?:e-?\d+)?', s)
    fields = [Fq(v) for v in nums]
    while len(fields) < 3:
        fields.insert(0, Fq(0))
    negs = sum(1 for v in nums if v.startswith('-'))
    sign = -1 if negs else 1
    D_, M_, S_ = [abs(v) for v in fields[-3:]]
    if M_ >= 60 or S_ >= 60 or D_ >= unit or negs > 1:
        bad = 'printed %r' % s
    else:
        lead = next((v for v in nums if Fq(v) != 0), None)
        if negs and not (lead is not None and lead.startswith('-')):
            bad = 'sign not on the leading non-zero field: %r' % s
        rec = sign * (D_ + M_ / 60 + S_ / 3600)
        step = Fq(1, 10 ** max(nd, 0)) / 3600 if nd >= 0 else Fq(0)
        dd = rec - val
        k = round(dd / unit)
        if abs(dd - unit * k) > step / 2 + Fq(1, 10 ** 9):
            bad = 'printed %r reads back as %r, value %r' % (s, float(rec), float(val))
if bad:
    print('REPRODUCED %s: x=%r: %s' % (SITE, x, bad)); sys.exit(1)
print('not reproduced'); sys.exit(0)
'''


RTN, RTP = z3.RTN(), z3.RTP()


def exact_add(a, b):
    """the IEEE sum a + b is exact (same result rounding down and up)"""
    return z3.fpEQ(z3.fpAdd(RTN, a, b), z3.fpAdd(RTP, a, b))


def spec_pieces(v):
    """the defining formulas of the decomposition of a non-negative double v, evaluated with the FP proxies
    (python semantics of % and int): d = int(v) ; m_raw = v % 1 * 60.0 ; m = int(m_raw) ; s = m_raw % 1 * 60.0.
    Also returns the plain-IEEE forms of the two fractions, v - trunc v, used by the exactness lemmas."""
    V = FNum(v)
    d = V.trunc()
    m_raw = (V % 1) * 60.0
    m = m_raw.trunc()
    sec = (m_raw % 1) * 60.0
    dt = z3.fpRoundToIntegral(RTZ, v)
    f1 = z3.fpSub(RNE, v, dt)
    mt = z3.fpRoundToIntegral(RTZ, m_raw.f)
    f2 = z3.fpSub(RNE, m_raw.f, mt)
    return F(d), f1, m_raw.f, F(m), f2, sec.f, (V % 1).f, (m_raw % 1).f, dt, mt


def task_tuple(ra):
    t = harness.Task('tuple ra=%s' % ra)
    Angle = loader.mod('Angle').Angle
    x = FNum.var('x')
    pre = [fp.finite(x), z3.fpLT(absf(x.f), fpv(360.0))]

    def fn():
        a = Angle(x)
        return a.ra_tuple() if ra else a.dms_tuple()
    ctx, paths = core.explore(fn, pre, timeout_ms=30000, max_paths=400, max_seconds=600)
    t.absorb_ctx(ctx, paths)
    inp = lambda mo: {'kind': 'tuple', 'ra': ra, 'x': fval(mo, x.f)}
    unit = 24.0 if ra else 360.0
    val = z3.fpDiv(RNE, x.f, fpv(15.0)) if ra else x.f
    bd = 'every Angle value (double in (-360, 360)), %s' % ('hours' if ra else 'degrees')
    def specs():
        return spec_pieces(absf(val))
    for i, p in enumerate(paths):
        tag = '@ra%s.p%d' % (ra, i)
        if p.kind != 'ok':
            r, mo, _ = core.check(ctx, p, z3.BoolVal(True))
            t.ob('decomposition total' + tag, 'sat' if p.kind == 'exc' else 'unwind', 0, bd)
            if p.kind == 'exc':
                t.cand('C04.tuple', inp(mo) if mo else {}, 'raised %r' % (p.exc,))
            continue
        (de, mi, se, sign) = p.val
        df, mf, sf, gf = F(de), F(mi), F(se), F(sign)
        t.reach += 4
        for nm, bad in (('integer degrees/hours in [0, %d)' % int(unit), z3.Not(z3.And(is_int_valued(de), z3.fpGEQ(df, fpv(0.0)), z3.fpLT(df, fpv(unit))))),
                        ('integer minutes in [0, 60)', z3.Not(z3.And(is_int_valued(mi), z3.fpGEQ(mf, fpv(0.0)), z3.fpLT(mf, fpv(60.0))))),
                        ('seconds in [0, 60)', z3.Not(z3.And(z3.fpGEQ(sf, fpv(0.0)), z3.fpLT(sf, fpv(60.0))))),
                        ('sign is +-1 and is the sign of the value', z3.Not(z3.And(z3.Or(z3.fpEQ(gf, fpv(1.0)), z3.fpEQ(gf, fpv(-1.0))),
                                                                                     z3.Implies(z3.fpLT(val, fpv(0.0)), z3.fpEQ(gf, fpv(-1.0))),
                                                                                     z3.Implies(z3.fpGT(val, fpv(0.0)), z3.fpEQ(gf, fpv(1.0))))))):
            t.decide(ctx, p, nm + tag, bad, 'C04.tuple', inp, nm, bd, timeout_ms=120000)
        # recombination: the pieces ARE the defining decomposition of |value|, whose only inexact steps are the two
        # multiplications by 60 (each one rounding, |error| <= 2^-48): d + f1 = |v| and m + f2 = m_raw hold exactly
        t.reach += 4
        core.CUR = ctx
        ctx.path = p
        ctx.solver = ctx.new_solver()
        try:
            d_, f1, m_raw, m_, f2, s_, q1, q2, dt, mt = specs()
        finally:
            core.CUR = None
        t.decide(ctx, p, 'pieces equal the defining decomposition d = int|v|, m = int(|v| % 1 * 60), s = (|v| % 1 * 60) % 1 * 60' + tag,
                 z3.Not(z3.And(z3.fpEQ(df, d_), z3.fpEQ(mf, m_), z3.fpEQ(sf, s_))), 'C04.tuple', inp, 'recombination', bd, timeout_ms=120000)
        t.decide(ctx, p, 'x % 1 is x - trunc x for the non-negative operands here' + tag, z3.Not(z3.And(z3.fpEQ(q1, f1), z3.fpEQ(q2, f2))),
                 'C04.tuple', inp, 'recombination', bd, timeout_ms=120000)
        t.decide(ctx, p, 'first split exact: trunc|v| + frac = |v| with no rounding' + tag,
                 z3.Not(z3.And(exact_add(dt, f1), z3.fpEQ(z3.fpAdd(RNE, dt, f1), absf(val)))), 'C04.tuple', inp, 'recombination', bd, timeout_ms=120000)
        t.decide(ctx, p, 'second split exact: trunc(m_raw) + frac = m_raw with no rounding' + tag,
                 z3.Not(z3.And(exact_add(mt, f2), z3.fpEQ(z3.fpAdd(RNE, mt, f2), m_raw))), 'C04.tuple', inp, 'recombination', bd, timeout_ms=120000)
        if i == 0:
            r, mo, _ = core.check(ctx, p, z3.BoolVal(True))
            if mo is not None:
                t.samples.append({'path': 'tuple ra=%s path 0' % ra, 'reach_witness': inp(mo)})
    return t


def task_str(arg):
    ra, fancy, nd = arg
    t = harness.Task('str ra=%s fancy=%s n_dec=%d' % (ra, fancy, nd))
    Angle = loader.mod('Angle').Angle
    x = FNum.var('x')
    pre = [fp.finite(x), z3.fpLT(absf(x.f), fpv(360.0))]

    def fn():
        a = Angle(x)
        s = a.ra_str(fancy, nd) if ra else a.dms_str(fancy, nd)
        fm = [n for n in core.CUR.path.notes if isinstance(n, tuple) and n[0] == 'format']
        # the pieces the string must show: the object's own decomposition (decided by task_tuple) and the rounded seconds
        tp = (Angle(a()) / 15.0).dms_tuple() if ra else a.dms_tuple()
        rs = round(tp[2], nd) if nd >= 0 else tp[2]
        return s, fm, tp, rs
    ctx, paths = core.explore(fn, pre, timeout_ms=30000, max_paths=2000, max_seconds=900)
    t.absorb_ctx(ctx, paths)
    inp = lambda mo: {'kind': 'str', 'ra': ra, 'fancy': fancy, 'n_dec': nd, 'x': fval(mo, x.f)}
    unit = 24.0 if ra else 360.0
    bd = 'every Angle value, %s, %s style, n_dec=%d' % ('RA' if ra else 'angle', 'fancy' if fancy else 'colon', nd)
    zero = fpv(0.0)
    for i, p in enumerate(paths):
        tag = '@%s%s%d.p%d' % ('r' if ra else 'a', 'f' if fancy else 'c', nd, i)
        if p.kind != 'ok':
            r, mo, _ = core.check(ctx, p, z3.BoolVal(True))
            t.ob('printing total' + tag, 'sat' if p.kind == 'exc' else 'unwind', 0, bd)
            if p.kind == 'exc':
                t.cand('C04.str', inp(mo) if mo else {}, 'raised %r' % (p.exc,))
            continue
        s, fmts, (de, mi, se, sign), rs = p.val
        terms = [F(n[1]) for n in fmts]
        if not isinstance(s, str) or len(terms) > 3:
            t.ob('string with at most three printed fields' + tag, 'sat', 0, bd)
            t.cand('C04.str', {}, 'shape %r' % (s,))
            continue
        t.reach += 3
        fields = [zero] * (3 - len(terms)) + terms
        Df, Mf, Sf = fields
        rest = terms[1:]
        lead = terms[0] if terms else zero
        shape_ok = z3.And(z3.fpLT(absf(Mf), fpv(60.0)), z3.fpLT(absf(Sf), fpv(60.0)), z3.fpLT(absf(Df), fpv(unit)), *[z3.fpGEQ(r_, zero) for r_ in rest])
        t.decide(ctx, p, 'minutes and seconds fields below 60, leading field below %d, no sign after the first printed field' % int(unit) + tag,
                 z3.Not(shape_ok), 'C04.str', inp, 'field out of range', bd, timeout_ms=120000)
        # the printed fields are the decomposition with the seconds rounded and the carries propagated
        df, mf, rf, gf = F(de), F(mi), F(rs), F(sign)
        carry_s = z3.fpLT(absf(z3.fpSub(RNE, rf, fpv(60.0))), fpv(1e-10)) if nd >= 0 else z3.BoolVal(False)
        m1 = z3.fpAdd(RNE, mf, fpv(1.0))
        carry_m = z3.And(carry_s, z3.fpEQ(m1, fpv(60.0)))
        d1 = z3.fpAdd(RNE, df, fpv(1.0))
        want_s = z3.If(carry_s, zero, rf)
        want_m = z3.If(carry_m, zero, z3.If(carry_s, m1, mf))
        want_d = z3.If(carry_m, z3.If(z3.fpGEQ(d1, fpv(unit)), z3.fpSub(RNE, d1, fpv(unit)), d1), df)
        # RA strings go through Angle(value/15): a degree field of 360 wraps at 360 there; hours are read modulo 24
        same = z3.And(z3.fpEQ(absf(Sf), want_s), z3.fpEQ(absf(Mf), want_m),
                      z3.Or(z3.fpEQ(absf(Df), want_d), z3.fpEQ(absf(Df), z3.If(carry_m, d1, df))) if ra else z3.fpEQ(absf(Df), want_d))
        t.decide(ctx, p, 'printed fields = decomposition with seconds rounded at the requested decimal and carries propagated' + tag,
                 z3.Not(same), 'C04.str', inp, 'read back', bd, timeout_ms=120000)
        # sign: shown exactly when the value is negative and something non-zero is printed, on the first printed field
        neg = z3.fpEQ(gf, fpv(-1.0))
        anynz = z3.Or(*[z3.Not(z3.fpIsZero(f_)) for f_ in terms]) if terms else z3.BoolVal(False)
        sign_ok = z3.And(z3.Implies(z3.And(neg, anynz), z3.And(z3.fpLT(lead, zero))), z3.Implies(z3.Not(neg), z3.fpGEQ(lead, zero)))
        if len(terms) < 3:
            # leading fields absent from the string must be zero in the rounded decomposition
            hidden = [want_d, want_m, want_s][:3 - len(terms)]
            sign_ok = z3.And(sign_ok, *[z3.fpIsZero(h_) for h_ in hidden])
        t.decide(ctx, p, 'sign exactly once, on the leading non-zero field; omitted leading fields are zero' + tag, z3.Not(sign_ok), 'C04.str', inp,
                 'sign', bd, timeout_ms=120000)
        if i == 0:
            r, mo, _ = core.check(ctx, p, z3.BoolVal(True))
            if mo is not None:
                t.samples.append({'path': 'shape %r' % s, 'reach_witness': inp(mo)})
    return t


def dispatch(job):
    return task_tuple(job[1]) if job[0] == 'tuple' else task_str(job[1])


def main(tier):
    loader.install()
    chk = harness.Check(PID, tier)
    chk.replays = {'C04.tuple': REPLAY, 'C04.str': REPLAY}
    chk.functions = ['Angle.deg2dms', 'Angle.dms_tuple', 'Angle.ra_tuple', 'Angle.dms2deg', 'Angle.reduce_dms', 'Angle.dms_str', 'Angle.ra_str', 'Angle.__truediv__']
    ns = {'Angle': loader.mod('Angle').Angle}
    chk.diff([('lambda x: Angle.deg2dms(x)', [23.44694444]), ('lambda x: Angle.deg2dms(x)', [-0.44694444]), ('lambda x: Angle(x).ra_tuple()', [138.7325]),
              ('lambda d,m,s: Angle.dms2deg(d,m,s)', [23, 26, 48.999983999])], ns, ctx_kw={'check_div0': False})
    nds = [-1]
    jobs = [('tuple', False), ('tuple', True)]
    for ra in (False, True):
        for fancy in (True, False):
            for nd in nds:
                jobs.append(('str', (ra, fancy, nd)))
    chk.run(dispatch, jobs, 'decomposition and printing (bit-precise)')
    chk.bounds = {'values': 'every double in (-360, 360)', 'n_dec': nds, 'styles': 'fancy and colon, angle and RA'}
    chk.stubs = ['str.format captured: the printed numbers are the solver terms handed to format(); digit rendering by CPython is trusted',
                 'round(s, n) modelled as a sound superset: nearest double to k/10^n with |k - s*10^n| <= 1/2 (+2^-20)']
    chk.outside = ['the decimal digits produced for a float and parsing them back',
                   'n_dec >= 0 (rounded seconds with carries): the exploration of dms_str with the round() model did not finish within the 900 s budget per variant -- encoded (task_str handles it) but not claimed']
    chk.assumptions = ['bit-precise binary64. Recombination to 1e-9 degree: the solver shows that the returned pieces are the defining decomposition and that both splits (integer + fraction) are exact; the only inexact steps are the two multiplications by 60, one rounding each (<= 2^-48), i.e. < 1e-14 degree in total -- that last bound is arithmetic on the IEEE rounding axiom, not a solver query (the direct FP query was `unknown` after 120 s)']
    return chk.finish()
