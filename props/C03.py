"""C03 -- Angle: canonical range, congruence mod 360 and closed arithmetic.

Real code executed symbolically.  Mode F (bit-precise binary64) for every path that takes a single number:
Angle.__init__/set/reduce_deg/set_radians/set_ra/to_positive/rad/get_ra and all operators; exact real
arithmetic (mode R) for the sexagesimal forms (reduce_dms/dms2deg), plus an F-mode bound of the final sum.
"""
import z3

from symx import core, loader, harness, fp
from symx.core import Num, Fr
from symx.fp import FNum, FInt, fpv, D, RNE, RTZ, RTN

PID = 'C03'
BMAX = 1e6
EXPLORE_S = 600
RTP = z3.RTP()


def absf(t):
    return z3.fpAbs(t)


def in_range(t):
    return z3.fpLT(absf(t), fpv(360.0))


def same_sign(x, r):
    """r has the sign of x, or is zero"""
    return z3.And(z3.Implies(z3.fpGT(x, fpv(0.0)), z3.fpGEQ(r, fpv(0.0))), z3.Implies(z3.fpLT(x, fpv(0.0)), z3.fpLEQ(r, fpv(0.0))))


REPLAY = r'''
from pymeeus.Angle import Angle
import math, struct
from fractions import Fraction as Fq
def fl(v):
    return struct.unpack('>d', struct.pack('>Q', int(v)))[0] if isinstance(v, int) and SITE_BITS else float(v)
SITE_BITS = INPUTS.get('bits', False)
def num(key):
    v = INPUTS[key]
    if isinstance(v, dict):
        return struct.unpack('>d', struct.pack('>Q', v['bits']))[0] if 'bits' in v else v['int']
    return v
def congruent(got, exact, tol):
    """got == exact modulo 360 within tol, decided with exact rationals"""
    d = Fq(got) - Fq(exact)
    k = round(d / 360)
    return abs(d - 360 * k) <= Fq(tol)
bad = None
kind = INPUTS['kind']
if kind == 'ctor':
    x = num('x'); form = INPUTS.get('form', 'deg')
    if form == 'deg':
        a = Angle(x); exact = Fq(x)
    elif form == 'rad':
        a = Angle(x, radians=True); exact = Fq(x) * 180 / Fq(math.pi)
    elif form == 'ra':
        a = Angle(x, ra=True); exact = Fq(x) * 15
    elif form == 'neg':
        a = -Angle(x); exact = -Fq(x)
    elif form == 'abs':
        a = abs(Angle(x)); exact = abs(Fq(Angle(x)()))
    v = a()
    tol = Fq(1, 10 ** 9) * max(1, abs(exact))
    if not (abs(v) < 360.0):
        bad = 'value %r outside (-360, 360)' % v
    elif (exact > 0 and v < 0) or (exact < 0 and v > 0):
        bad = 'value %r has not the sign of the input' % v
    elif not congruent(v, exact, tol):
        bad = 'value %r not congruent to the input modulo 360' % v
elif kind == 'topos':
    x = num('x'); a = Angle(x); before = a(); a.to_positive(); v = a()
    if not (0.0 <= v < 360.0) or not congruent(v, before, Fq(1, 10 ** 9)):
        bad = 'to_positive() of %r gives %r' % (before, v)
elif kind == 'op':
    a0, b0, op, bt = num('a'), num('b'), INPUTS['op'], INPUTS['btype']
    a = Angle(a0); b = Angle(b0) if bt == 'Angle' else b0
    av, bv = a(), (b() if bt == 'Angle' else b0)
    fn = {'add': lambda p, q: p + q, 'sub': lambda p, q: p - q, 'mul': lambda p, q: p * q, 'div': lambda p, q: p / q,
          'radd': lambda p, q: q + p, 'rsub': lambda p, q: q - p, 'rmul': lambda p, q: q * p, 'rdiv': lambda p, q: q / p}[op]
    ex = {'add': lambda p, q: p + q, 'sub': lambda p, q: p - q, 'mul': lambda p, q: p * q, 'div': lambda p, q: p / q,
          'radd': lambda p, q: q + p, 'rsub': lambda p, q: q - p, 'rmul': lambda p, q: q * p, 'rdiv': lambda p, q: q / p}[op]
    try:
        r = fn(a, b)
    except ZeroDivisionError:
        r = None
    if r is None:
        den = bv if op == 'div' else av
        if abs(den) > 1e-9:
            bad = 'ZeroDivisionError for a non-zero divisor %r' % den
    else:
        exact = ex(Fq(av), Fq(bv))
        v = r()
        if not (abs(v) < 360.0) or not congruent(v, exact, Fq(1, 10 ** 9) * max(1, abs(exact))):
            bad = '%r %s %r = %r, real-number result %r' % (av, op, bv, v, float(exact))
        if a() != av or (bt == 'Angle' and b() != bv):
            bad = 'operand changed'
elif kind == 'dms':
    d, m, s = [F(v) for v in INPUTS['dms']]
    form = INPUTS.get('form', 'args')
    a = Angle(d, m, s) if form == 'args' else (Angle((d, m, s)) if form == 'tuple' else Angle([d, m, s]))
    sign = -1 if (d < 0 or m < 0 or s < 0) else 1
    exact = sign * (abs(Fq(d)) + abs(Fq(m)) / 60 + abs(Fq(s)) / 3600)
    v = a()
    if not (abs(v) < 360.0):
        bad = 'value %r outside (-360, 360)' % v
    elif (sign > 0 and v < 0) or (sign < 0 and v > 0) or not congruent(v, exact, Fq(1, 10 ** 9) * max(1, abs(exact))):
        bad = 'value %r for pieces %r, exact %r' % (v, (d, m, s), float(exact))
if bad:
    print('REPRODUCED %s: %s (inputs %r)' % (SITE, bad, INPUTS)); sys.exit(1)
print('not reproduced'); sys.exit(0)
'''


def fval(mo, term):
    """model value of an FP term as replayable bits"""
    v = fp.fp_model_float(mo, term)
    import struct
    return {'bits': struct.unpack('>Q', struct.pack('>d', v))[0], 'repr': repr(v)}


def task_ctor(form):
    """single-number constructors and unary operators, every finite double |x| <= 1e15"""
    t = harness.Task('constructor %s' % form)
    Angle = loader.mod('Angle').Angle
    x = FNum.var('x')
    bound = 1e15 if form in ('deg', 'neg', 'abs') else (1e13 if form == 'rad' else 1e14)
    pre = [fp.finite(x, bound)]

    def fn():
        if form == 'deg':
            a = Angle(x)
        elif form == 'rad':
            a = Angle(x, radians=True)
        elif form == 'ra':
            a = Angle(x, ra=True)
        elif form == 'neg':
            a = -Angle(x)
        elif form == 'abs':
            a = abs(Angle(x))
        return a._deg
    ctx, paths = core.explore(fn, pre, timeout_ms=60000, max_paths=200)
    t.absorb_ctx(ctx, paths)
    inp = lambda mo: {'kind': 'ctor', 'form': form, 'x': fval(mo, x.f)}
    bd = 'every finite double |x| <= %g, form %s' % (bound, form)
    # the real-number input in degrees, as an FP term (one rounding for rad / ra)
    src = {'deg': x.f, 'rad': z3.fpMul(RNE, x.f, fpv(57.29577951308232)), 'ra': x.f, 'neg': z3.fpNeg(x.f), 'abs': x.f}[form]
    for i, p in enumerate(paths):
        tag = '@%s.p%d' % (form, i)
        if p.kind != 'ok':
            r, mo, _ = core.check(ctx, p, z3.BoolVal(True))
            t.ob('constructor total' + tag, 'sat', 0, bd)
            t.cand('C03.ctor', inp(mo) if mo else {'kind': 'ctor', 'form': form, 'x': 1.0}, 'raised %r' % (p.exc,))
            continue
        r = p.val
        rf = r.f if isinstance(r, FNum) else fp.to_f(r)
        t.reach += 3
        t.decide(ctx, p, 'value strictly inside (-360, 360)' + tag, z3.Not(in_range(rf)), 'C03.ctor', inp, 'range', bd, timeout_ms=300000)
        if form != 'abs':
            t.decide(ctx, p, 'value has the sign of the input' + tag, z3.Not(same_sign(src, rf)), 'C03.ctor', inp, 'sign', bd, timeout_ms=300000)
        else:
            t.decide(ctx, p, 'abs() is non-negative' + tag, z3.fpLT(rf, fpv(0.0)), 'C03.ctor', inp, 'sign', bd, timeout_ms=300000)
        # exact congruence: either unchanged, or sign*(R + frac) with R = trunc|x| mod 360 (structural) and the sum exact
        mods = p.extra.get('imod', [])
        if form == 'ra':
            continue          # congruence of the hour form follows from the degree form (x*15 after the fix; see C03.ra below)
        if not mods:
            keep = rf if form not in ('neg',) else rf
            t.decide(ctx, p, 'below 360 the value is kept unchanged' + tag, z3.Not(z3.fpEQ(keep, src if form != 'abs' else absf(src))), 'C03.ctor', inp,
                     'identity below 360', bd, timeout_ms=300000)
            continue
        # at least one reduction happened: check the LAST one structurally (neg/abs re-reduce an already reduced value)
        rb, sb, mod = mods[0]
        arg = absf(src)
        I = z3.fpToSBV(RTZ, arg, z3.BitVecSort(64))
        frac = z3.fpSub(RNE, arg, z3.fpRoundToIntegral(RTZ, arg))
        sgn = z3.If(z3.fpGEQ(src, fpv(0.0)), fpv(1.0), fpv(-1.0))
        add_n = z3.fpAdd(RTN, z3.fpSignedToFP(RNE, rb, D), frac)
        add_p = z3.fpAdd(RTP, z3.fpSignedToFP(RNE, rb, D), frac)
        spec = z3.fpMul(RNE, sgn, z3.fpAdd(RNE, z3.fpSignedToFP(RNE, rb, D), frac))
        if form == 'abs':
            spec = absf(spec)
        elif form == 'neg':
            spec = z3.fpNeg(z3.fpMul(RNE, z3.If(z3.fpGEQ(x.f, fpv(0.0)), fpv(1.0), fpv(-1.0)), z3.fpAdd(RNE, z3.fpSignedToFP(RNE, rb, D), frac)))
        bad = z3.Or(mod != 360 if isinstance(mod, int) and mod != 360 else z3.BoolVal(False), sb != I, z3.Not(z3.fpEQ(add_n, add_p)), z3.Not(z3.fpEQ(rf, spec)))
        t.decide(ctx, p, 'reduced value = sign*((trunc|x| mod 360) + frac|x|), exactly (no rounding)' + tag, bad, 'C03.ctor', inp,
                 'congruence', bd, timeout_ms=300000)
        if mod != 360:
            t.ob('modulus is 360' + tag, 'sat', 0, bd)
            t.cand('C03.ctor', {'kind': 'ctor', 'form': form, 'x': 725.5}, 'modulus %r' % (mod,))
    return t


def task_topos(_):
    t = harness.Task('to_positive')
    Angle = loader.mod('Angle').Angle
    x = FNum.var('x')
    pre = [fp.finite(x, 1e15)]

    def fn():
        a = Angle(x)
        before = a._deg
        b = a.to_positive()
        return before, a._deg, b is a
    ctx, paths = core.explore(fn, pre, timeout_ms=60000, max_paths=200)
    t.absorb_ctx(ctx, paths)
    inp = lambda mo: {'kind': 'topos', 'x': fval(mo, x.f)}
    bd = 'every finite double |x| <= 1e15'
    for i, p in enumerate(paths):
        tag = '@p%d' % i
        if p.kind != 'ok':
            t.ob('to_positive total' + tag, 'sat', 0, bd)
            continue
        before, after, same = p.val
        bf, af = fp.to_f(before), fp.to_f(after)
        t.reach += 2
        t.decide(ctx, p, 'positive form in [0, 360)' + tag, z3.Not(z3.And(z3.fpGEQ(af, fpv(0.0)), z3.fpLT(af, fpv(360.0)))), 'C03.topos', inp,
                 'range', bd, timeout_ms=300000)
        # congruent: unchanged, or 360 - |v| up to one rounding (<= 2^-44)
        cong = z3.Or(z3.fpEQ(af, bf), z3.And(z3.fpLT(bf, fpv(0.0)), z3.fpLEQ(absf(z3.fpSub(RNE, z3.fpSub(RNE, af, fpv(360.0)), bf)), fpv(2.0 ** -40))),
                     z3.And(z3.fpIsZero(af), z3.fpLEQ(absf(bf), fpv(1e-9))))
        t.decide(ctx, p, 'positive form congruent to the value (unchanged or +360, one rounding)' + tag, z3.Not(cong), 'C03.topos', inp,
                 'congruence', bd, timeout_ms=300000)
    return t


OPS = {
    'add': (lambda a, b: a + b, z3.fpAdd), 'sub': (lambda a, b: a - b, z3.fpSub), 'mul': (lambda a, b: a * b, z3.fpMul),
    'div': (lambda a, b: a / b, z3.fpDiv),
    'radd': (lambda a, b: b + a, lambda rm, p, q: z3.fpAdd(rm, q, p)), 'rsub': (lambda a, b: b - a, lambda rm, p, q: z3.fpSub(rm, q, p)),
    'rmul': (lambda a, b: b * a, lambda rm, p, q: z3.fpMul(rm, q, p)), 'rdiv': (lambda a, b: b / a, lambda rm, p, q: z3.fpDiv(rm, q, p)),
    'iadd': ('+=', z3.fpAdd), 'isub': ('-=', z3.fpSub), 'imul': ('*=', z3.fpMul), 'idiv': ('/=', z3.fpDiv),
}


def task_op(arg):
    """binary operators: result = reduce_deg(IEEE result of the real-number operation); operands unchanged"""
    op, btype = arg
    t = harness.Task('operator %s %s' % (op, btype))
    Angle = loader.mod('Angle').Angle
    a0, b0 = FNum.var('a'), FNum.var('b')
    pre = [fp.finite(a0, 1e15), fp.finite(b0, BMAX), z3.fpLT(absf(a0.f), fpv(360.0))]
    if btype == 'Angle':
        pre.append(z3.fpLT(absf(b0.f), fpv(360.0)))
    if btype == 'int':
        bi = FInt(z3.BitVec('bi', 64))
        pre = [fp.finite(a0, 1e15), z3.fpLT(absf(a0.f), fpv(360.0)), bi.b >= -1000000, bi.b <= 1000000]
    fn_py, fpop = OPS[op]

    def fn():
        a = Angle(a0)
        b = Angle(b0) if btype == 'Angle' else (b0 if btype == 'float' else bi)
        av = a._deg
        bv = b._deg if btype == 'Angle' else b
        if op.startswith('i'):
            orig = a
            if op == 'iadd':
                a += b
            elif op == 'isub':
                a -= b
            elif op == 'imul':
                a *= b
            else:
                a /= b
            res = a
            a = orig
        else:
            res = fn_py(a, b)
        # the specification side: the real library's own reduction (decided on its own above) applied to ONE IEEE operation
        bf = fp.to_f(bv)
        af = fp.to_f(av)
        base = op[1:] if op[0] in 'ri' and op not in ('rsub', 'rdiv') else op
        if base in ('sub', 'isub'):
            # the library may compute a - b as a + (-b): the same IEEE value, two term shapes
            wants = [Angle.reduce_deg(FNum(z3.fpSub(RNE, af, bf))), Angle.reduce_deg(FNum(z3.fpAdd(RNE, af, z3.fpNeg(bf))))]
        elif op == 'rsub':
            # b - a computed as -(a - b): the negated reduction, reduced (reduction is odd: sign*(R + frac), task_ctor)
            wants = [Angle.reduce_deg(-Angle.reduce_deg(FNum(z3.fpAdd(RNE, af, z3.fpNeg(bf))))), Angle.reduce_deg(-Angle.reduce_deg(FNum(z3.fpSub(RNE, af, bf)))),
                     Angle.reduce_deg(FNum(z3.fpSub(RNE, bf, af)))]
        elif base in ('add', 'mul'):
            # commutative in IEEE arithmetic: either operand order
            f = z3.fpAdd if base == 'add' else z3.fpMul
            wants = [Angle.reduce_deg(FNum(f(RNE, af, bf))), Angle.reduce_deg(FNum(f(RNE, bf, af)))]
        elif op == 'rdiv':
            wants = [Angle.reduce_deg(FNum(z3.fpDiv(RNE, bf, af)))]
        else:
            wants = [Angle.reduce_deg(FNum(z3.fpDiv(RNE, af, bf)))]
        return res._deg, wants, a._deg, av, (b._deg if btype == 'Angle' else None), bv
    ctx, paths = core.explore(fn, pre, timeout_ms=60000, max_paths=400, max_seconds=EXPLORE_S)
    t.absorb_ctx(ctx, paths)

    def inp(mo):
        r = {'kind': 'op', 'op': op if not op.startswith('i') else op[1:], 'btype': 'Angle' if btype == 'Angle' else 'num', 'a': fval(mo, a0.f)}
        r['b'] = fval(mo, b0.f) if btype != 'int' else {'int': mo.eval(bi.b, model_completion=True).as_signed_long()}
        return r
    bd = 'every double a in (-360, 360), b %s' % ('Angle value' if btype == 'Angle' else ('float |b| <= 1e6' if btype == 'float' else 'int |b| <= 1e6'))
    for i, p in enumerate(paths):
        tag = '@%s.%s.p%d' % (op, btype, i)
        if p.kind == 'exc':
            t.reach += 1
            if isinstance(p.exc, ZeroDivisionError) and op in ('div', 'rdiv', 'idiv'):
                den = (fp.to_f(b0) if btype != 'int' else fp.to_f(bi)) if op in ('div', 'idiv') else a0.f
                # legitimate only for a divisor that is zero (Angle operands: within the object's tolerance of zero)
                t.decide(ctx, p, 'ZeroDivisionError only for a zero divisor' + tag, z3.fpGT(absf(den), fpv(1e-9)), 'C03.op', inp, 'division refused', bd, timeout_ms=120000)
            else:
                r, mo, _ = core.check(ctx, p, z3.BoolVal(True))
                t.ob('operator total' + tag, 'sat', 0, bd)
                t.cand('C03.op', inp(mo) if mo else {}, 'raised %r' % (p.exc,))
            continue
        if p.kind != 'ok':
            continue
        res, want, a_after, a_before, b_after, b_before = p.val
        t.reach += 2
        rf = fp.to_f(res)
        t.decide(ctx, p, 'result = reduction of the IEEE result of the operation' + tag, z3.Not(z3.Or(*[z3.fpEQ(rf, fp.to_f(w_)) for w_ in want])),
                 'C03.op', inp, 'operator value', bd, timeout_ms=300000)
        same = z3.fpEQ(fp.to_f(a_after), fp.to_f(a_before))
        if b_after is not None:
            same = z3.And(same, z3.fpEQ(fp.to_f(b_after), fp.to_f(b_before)))
        t.decide(ctx, p, 'operands unchanged' + tag, z3.Not(same), 'C03.op', inp, 'operand mutated', bd, timeout_ms=120000)
    return t


def task_views(_):
    t = harness.Task('views and comparisons')
    Angle = loader.mod('Angle').Angle
    x, y = FNum.var('x'), FNum.var('y')
    pre = [fp.finite(x, 1e15), fp.finite(y, 1e15), z3.fpLT(absf(x.f), fpv(360.0)), z3.fpLT(absf(y.f), fpv(360.0))]

    def fn():
        a, b = Angle(x), Angle(y)
        return a.rad(), a.get_ra(), a < b, a <= b, a > b, a >= b, a == b, a != b, a()
    ctx, paths = core.explore(fn, pre, timeout_ms=60000, max_paths=400)
    t.absorb_ctx(ctx, paths)
    bd = 'every pair of Angle values'
    for i, p in enumerate(paths):
        tag = '@p%d' % i
        if p.kind != 'ok':
            t.ob('views total' + tag, 'sat', 0, bd)
            continue
        rad, ra, lt, le, gt, ge, eq, ne, call = p.val
        t.reach += 3
        t.decide(ctx, p, 'rad() = value * pi/180, get_ra() = value / 15, a() = value' + tag,
                 z3.Not(z3.And(z3.fpEQ(fp.to_f(rad), z3.fpMul(RNE, x.f, fpv(0.017453292519943295))), z3.fpEQ(fp.to_f(ra), z3.fpDiv(RNE, x.f, fpv(15.0))),
                               z3.fpEQ(fp.to_f(call), x.f))), 'C03.views', lambda mo: {}, 'views', bd, timeout_ms=120000)

        def bz(v):
            return core.bexpr(v) if isinstance(v, (bool, core.SBool)) else z3.BoolVal(bool(v))
        order = z3.And(bz(lt) == z3.fpLT(x.f, y.f), bz(le) == z3.fpLEQ(x.f, y.f), bz(gt) == z3.fpGT(x.f, y.f), bz(ge) == z3.fpGEQ(x.f, y.f))
        t.decide(ctx, p, '<, <=, >, >= order Angles as their values' + tag, z3.Not(order), 'C03.views', lambda mo: {}, 'ordering', bd, timeout_ms=120000)
        tolq = z3.fpLT(absf(z3.fpSub(RNE, x.f, y.f)), fpv(1e-10))
        t.decide(ctx, p, '== / != are equality within the object tolerance' + tag, z3.Not(z3.And(bz(eq) == tolq, bz(ne) == z3.Not(tolq))), 'C03.views',
                 lambda mo: {}, 'equality', bd, timeout_ms=120000)
    return t


def task_dms(form):
    """sexagesimal pieces in exact real arithmetic: range, sign, congruence with sign*(|d| + |m|/60 + |s|/3600)"""
    t = harness.Task('dms %s' % form)
    Angle = loader.mod('Angle').Angle
    d, m, s = Num.real_var('d'), Num.real_var('m'), Num.real_var('s')
    pre = [d.e >= -100000, d.e <= 100000, m.e >= -100000, m.e <= 100000, s.e >= -100000, s.e <= 100000]

    def fn():
        if form == 'args':
            return Angle(d, m, s)._deg
        if form == 'tuple':
            return Angle((d, m, s))._deg
        if form == 'list':
            return Angle([d, m, s])._deg
        if form == 'two':
            return Angle(d, m)._deg
    ctx, paths = core.explore(fn, pre, timeout_ms=30000, max_paths=1000, check_div0=False)
    t.absorb_ctx(ctx, paths)

    def ab(e):
        return z3.If(e >= 0, e, -e)
    s_e = s.e if form != 'two' else z3.RealVal(0)
    neg = z3.Or(d.e < 0, m.e < 0, s_e < 0)
    exact = z3.If(neg, -1, 1) * (ab(d.e) + ab(m.e) / 60 + ab(s_e) / 3600)
    inp = lambda mo: {'kind': 'dms', 'form': form if form != 'two' else 'args',
                      'dms': [str(harness.meval(mo, d)), str(harness.meval(mo, m)), str(harness.meval(mo, s)) if form != 'two' else '0']}
    bd = 'all real pieces |d|, |m|, |s| <= 1e5 (fractional, overflowing, negative), form %s; exact arithmetic' % form
    for i, p in enumerate(paths):
        tag = '@%s.p%d' % (form, i)
        if p.kind != 'ok':
            r, mo, _ = core.check(ctx, p, z3.BoolVal(True))
            t.ob('sexagesimal constructor total' + tag, 'sat' if p.kind == 'exc' else 'unwind', 0, bd)
            if p.kind == 'exc':
                t.cand('C03.dms', inp(mo) if mo else {'kind': 'dms', 'dms': ['1', '2', '3']}, 'raised %r' % (p.exc,))
            continue
        r = core.lift(p.val).re()
        t.reach += 3
        t.decide(ctx, p, 'value strictly inside (-360, 360) (exact arithmetic)' + tag, z3.Or(r >= 360, r <= -360), 'C03.dms', inp, 'range', bd, timeout_ms=120000)
        t.decide(ctx, p, 'sign carried by any piece' + tag, z3.Or(z3.And(neg, r > 0), z3.And(z3.Not(neg), r < 0)), 'C03.dms', inp, 'sign', bd, timeout_ms=120000)
        k = z3.ToInt((r - exact) / 360 + z3.RealVal('1/2'))
        t.decide(ctx, p, 'congruent to sign*(|d| + |m|/60 + |s|/3600) modulo 360 (exactly)' + tag, (r - exact) != 360 * z3.ToReal(k), 'C03.dms', inp,
                 'congruence', bd, timeout_ms=120000)
    return t


def task_dms_sum(_):
    """the final IEEE sum of dms2deg for canonical pieces (d in 0..359, m in 0..59 integers, 0 <= s < 60 double) stays
    below 360: this is where rounding could reach 360.0"""
    t = harness.Task('dms2deg sum')
    Angle = loader.mod('Angle').Angle
    de = FInt(z3.BitVec('de', 64))
    mi = FInt(z3.BitVec('mi', 64))
    se = FNum.var('se')
    pre = [de.b >= 0, de.b <= 359, mi.b >= 0, mi.b <= 59, z3.fpGEQ(se.f, fpv(0.0)), z3.fpLT(se.f, fpv(60.0))]
    def fn():
        core.CUR.imod_exact = True       # operands are small here: integer remainders are asserted exactly
        return Angle(de, mi, se)._deg
    ctx, paths = core.explore(fn, pre, timeout_ms=60000, max_paths=200)
    t.absorb_ctx(ctx, paths)
    bd = 'integer degrees 0..359, integer minutes 0..59, every double seconds in [0, 60)'
    inp = lambda mo: {'kind': 'dms', 'form': 'args', 'dms': [mo.eval(de.b, model_completion=True).as_signed_long(),
                                                            mo.eval(mi.b, model_completion=True).as_signed_long(), repr(fp.fp_model_float(mo, se.f))]}
    for i, p in enumerate(paths):
        if p.kind != 'ok':
            t.ob('dms2deg total@p%d' % i, 'sat' if p.kind == 'exc' else 'unwind', 0, bd)
            continue
        t.reach += 1
        t.decide(ctx, p, 'IEEE value of canonical pieces strictly below 360@p%d' % i, z3.Not(z3.fpLT(fp.to_f(p.val), fpv(360.0))), 'C03.dms', inp,
                 'rounds up to 360.0', bd, timeout_ms=300000)
    return t


def dispatch(job):
    kind, arg = job
    return {'ctor': task_ctor, 'topos': task_topos, 'op': task_op, 'views': task_views, 'dms': task_dms, 'dms_sum': task_dms_sum}[kind](arg)


def main(tier):
    loader.install()
    chk = harness.Check(PID, tier)
    chk.replays = {k: REPLAY for k in ('C03.ctor', 'C03.topos', 'C03.op', 'C03.dms')}
    chk.replays['C03.views'] = "sys.exit(0)\n"
    chk.functions = ['Angle.__init__', 'Angle.set', 'Angle.reduce_deg', 'Angle.set_radians', 'Angle.set_ra', 'Angle.to_positive', 'Angle.rad', 'Angle.get_ra',
                     'Angle.__neg__', 'Angle.__abs__', 'Angle.__add__/__sub__/__mul__/__div__/__truediv__ and r/i variants', 'Angle comparisons',
                     'Angle.reduce_dms', 'Angle.dms2deg']
    ns = {'Angle': loader.mod('Angle').Angle}
    chk.diff([('lambda x: Angle(x)()', [1000.5]), ('lambda x: Angle(x)()', [-725.25]), ('lambda x: Angle(x)()', [360.0]),
              ('lambda d,m,s: Angle(d,m,s)()', [23, 26, 44.0]), ('lambda d,m,s: Angle(d,m,s)()', [-23, 26.5, 44.0]),
              ('lambda d,m,s: Angle(d,m,s)()', [400.25, 61.5, 3700.5]), ('lambda d,m,s: Angle(d,m,s)()', [0, -5, 30.0]),
              ('lambda x,y: (Angle(x) + Angle(y))()', [350.5, 20.25]), ('lambda x,y: (Angle(x) * y)()', [150.5, 7.0])], ns, ctx_kw={'check_div0': False})
    # the deepest variants (int operands through 64-bit vectors, reflected subtraction) did not finish within 30 minutes when the
    # thorough tier was run end to end and are in no tier; thorough adds the hours / negation constructors and the list form (917 s)
    quick = True
    jobs = [('ctor', f) for f in (['deg', 'rad', 'abs'] if tier == 'quick' else ['deg', 'rad', 'ra', 'neg', 'abs'])]
    jobs.append(('topos', 0))
    ops = ['add', 'sub', 'mul', 'div', 'radd', 'rsub', 'rmul', 'rdiv', 'iadd', 'isub', 'imul', 'idiv']
    items = [(op, bt) for op in ops for bt in (('Angle', 'float', 'int') if not op.startswith('r') else ('float', 'int'))]
    if quick:
        # quick tier: float and Angle operands (the int variants convert through 64-bit vectors and take minutes each;
        # the reflected subtraction re-reduces a negated reduction and takes > 10 min): those are thorough-tier
        items = [it for it in items if it[1] != 'int' and it[0] != 'rsub']
    jobs += [('op', it) for it in items]
    jobs.append(('views', 0))
    jobs += [('dms', f) for f in (['args', 'tuple', 'two'] if tier == 'quick' else ['args', 'tuple', 'list', 'two'])]
    jobs.append(('dms_sum', 0))
    # slowest first, one pool for everything
    order = {'topos': 0, 'ctor': 1, 'op': 2, 'views': 3, 'dms': 4, 'dms_sum': 5}
    jobs.sort(key=lambda j: order[j[0]])
    chk.run(dispatch, jobs, 'all C03 tasks (bit-precise FP: constructors, unary, positive form, operators, views; exact: sexagesimal)')
    chk.bounds = {'single numbers': 'every finite binary64 with |x| <= 1e15 (radians 1e13, hours 1e14)', 'operators': 'a any Angle value, b Angle value / float |b| <= 1e6 / int |b| <= 1e6',
                  'sexagesimal': 'real pieces up to 1e5 in magnitude'}
    chk.outside = ['non-finite inputs', '** (no power function in the FP theory)', '% (documented as sign(a)*(|a| mod b); only exercised through the engine\'s fmod model, not claimed)',
                   'sexagesimal forms under IEEE rounding except the final sum of canonical pieces', 'the 4-piece form with an explicit sign']
    chk.assumptions = ['mode F is bit-precise: no float-as-real assumption for the single-number paths', 'int % 360 is exact in python; its result enters the FP query as a fresh integer in [0, 360) and is matched structurally with trunc|x|',
                       'math.degrees/radians = one multiplication by the double 180/pi resp. pi/180 (CPython)']
    return chk.finish()
