"""C07 -- VSOP87 positions: the structural clauses (series evaluator = direct summation, FK5 and aberration corrections).

Real code executed symbolically (mode T / reals): Coordinates.vsop_pos on a SYMBOLIC table (arbitrary amplitudes,
phases, frequencies), geometric_vsop_pos and apparent_vsop_pos with vsop_pos replaced by arbitrary (L, B, R).
"""
import z3

from symx import core, loader, harness, trig
from symx.core import Num, Fr

PID = 'C07'

REPLAY = r'''
from pymeeus.Angle import Angle
from pymeeus.Epoch import Epoch
import pymeeus.Coordinates as C
from math import cos, sin, tan, radians, degrees
import random
bad = None
rnd = random.Random(7)
def mk(n_series, n_terms):
    return [[[rnd.uniform(-5e6, 5e6), rnd.uniform(0, 6.28), rnd.uniform(0, 6000.0)] for _ in range(n_terms)] for _ in range(n_series)]
if INPUTS['kind'] == 'tables':
    import importlib, math
    m = importlib.import_module('pymeeus.' + INPUTS['planet'])
    rs = sum(t[0] for t in m.VSOP87_L[1] if t[1] == 0 and t[2] == 0) / 1e8
    re_, a = m.ORBITAL_ELEM[0][1], m.ORBITAL_ELEM[1][0]
    if abs(18 * rs / math.pi - re_) > 1e-6 * abs(re_):
        bad = '%s: secular rate of the series %r deg/century, of the element table %r' % (INPUTS['planet'], 18 * rs / math.pi, re_)
    n = math.radians(re_ / 36525.0)
    if abs(n * a ** 1.5 / 0.01720209895 - 1) > INPUTS['tol']:
        bad = '%s: n a^1.5 / k = %r' % (INPUTS['planet'], n * a ** 1.5 / 0.01720209895)
elif INPUTS['kind'] == 'series':
    for trial in range(20):
        L, B, R = mk(3, 2), mk(2, 2), mk(3, 2)
        e = Epoch(2451545.0 + rnd.uniform(-700000, 700000)); t = (e.jde() - 2451545.0) / 365250.0
        lon, lat, r = C.vsop_pos(e, L, B, R)
        direct = lambda tab: sum(t ** i * sum(A * cos(Bp + Cf * t) for A, Bp, Cf in tab[i]) for i in range(len(tab))) / 1e8
        dl = (lon() - degrees(direct(L))) % 360.0
        if min(dl, 360 - dl) > 1e-7 or abs(r - direct(R)) > 1e-9 * max(1, abs(r)) or not (0 <= lon() < 360):
            bad = 'vsop_pos differs from direct summation: lon %r vs %r, r %r vs %r' % (lon(), degrees(direct(L)) % 360, r, direct(R)); break
else:
    L0, B0, R0 = 123.456, 1.2345, 0.98
    orig = C.vsop_pos
    C.vsop_pos = lambda *a: (Angle(L0), Angle(B0), R0)
    e = Epoch(2451545.0 + 3652.5)
    t = 0.1
    lon, lat, r = C.geometric_vsop_pos(e, [], [], [])
    lp = radians(L0 - t * (1.397 + 0.00031 * t))
    dl = (-0.09033 + 0.03916 * (cos(lp) + sin(lp)) * tan(radians(B0))) / 3600.0
    db = 0.03916 * (cos(lp) - sin(lp)) / 3600.0
    if abs(lon() - L0 - dl) > 1e-9 or abs(lat() - B0 - db) > 1e-9 or r != R0:
        bad = 'FK5 correction: got (%r, %r) expected (%r, %r)' % (lon() - L0, lat() - B0, dl, db)
    l2, b2, r2 = C.geometric_vsop_pos(e, [], [], [], tofk5=False)
    if l2() != L0 or b2() != B0:
        bad = 'tofk5=False changed the position'
    l3, b3, r3 = C.apparent_vsop_pos(e, [], [], [], nutation=False)
    if abs(l3() - lon() - (-20.4898 / R0) / 3600.0) > 1e-9:
        bad = 'aberration term: %r' % (l3() - lon())
    C.vsop_pos = orig
if bad:
    print('REPRODUCED %s: %s' % (SITE, bad)); sys.exit(1)
print('not reproduced'); sys.exit(0)
'''


def task_series(shape):
    """vsop_pos on a symbolic table: each of the three blocks (cut at `lon /= 1e8`, `lat /= 1e8`, `r /= 1e8`) equals
    sum_i t^i sum_k A cos(B + C t) / 1e8 as a polynomial identity in the cosines (shared atoms); final longitude in [0, 360)"""
    ns, nt = shape
    t = harness.Task('vsop_pos %d series x %d terms' % (ns, nt))
    from symx import slicer
    coords = loader.mod('Coordinates')
    E = loader.mod('Epoch')
    j = Num.real_var('jde')

    def table(tag):
        return [[[Num.real_var('%s%d_%d_%s' % (tag, i, k, c)) for c in 'ABC'] for k in range(nt)] for i in range(ns)]
    L, B, R = table('l'), table('b'), table('r')
    pre = [j.e >= 0, j.e <= 5400000]
    e = E.Epoch()
    heads = {v: slicer.head_until('Coordinates', 'vsop_pos', '%s /= 100000000.0' % v, 'epoch, vsop_l, vsop_b, vsop_r', v)[0] for v in ('lon', 'lat', 'r')}
    bd = '%d series x %d terms with arbitrary real A, B, C and any epoch; cosines as shared atoms' % (ns, nt)
    inp = lambda mo: {'kind': 'series'}
    for which, tab in (('lon', L), ('lat', B), ('r', R)):
        def fn():
            e._jde = j
            val = heads[which](e, L, B, R)
            tt = (j - 2451545.0) / 365250.0
            tot = Num.const(0.0)
            for i in range(ns):
                sm = Num.const(0.0)
                for k in range(nt):
                    sm = sm + tab[i][k][0] * trig.t_cos(tab[i][k][1] + tab[i][k][2] * tt)
                tot = tot + sm * (tt ** i)
            return val, tot
        ctx, paths = core.explore(fn, pre, trig='atoms', check_div0=False, timeout_ms=20000, max_paths=200, max_seconds=600)
        t.absorb_ctx(ctx, paths)
        for i, p in enumerate(paths):
            tag = '@%s.p%d' % (which, i)
            if p.kind != 'ok':
                t.ob('evaluator total' + tag, 'sat' if p.kind == 'exc' else 'unwind', 0, bd)
                continue
            v, d = core.lift(p.val[0]).re(), core.lift(p.val[1]).re()
            t.reach += 1
            t.decide(ctx, p, '%s block: Horner evaluation / 1e8 = direct term-by-term summation / 1e8' % which + tag, v * 100000000 != d, 'C07.series', inp, which, bd,
                     timeout_ms=120000, retry=False, use_pc=False)
    return t


def task_corrections(_):
    t = harness.Task('FK5 / aberration')
    coords = loader.mod('Coordinates')
    Angle = loader.mod('Angle').Angle
    E = loader.mod('Epoch')
    j, R0, nut = Num.real_var('jde'), Num.real_var('R0'), Num.real_var('nut')
    pre = trig.angle_pre('L', 0, 360) + trig.angle_pre('B', -10, 10) + [z3.Real('v_L') < 360, z3.Real('c_B') > 0, j.e >= 0, j.e <= 5400000, R0.e > z3.RealVal('0.3'), R0.e < 31,
                                                                          nut.e > z3.RealVal('-0.01'), nut.e < z3.RealVal('0.01')]
    e = E.Epoch()
    orig, orig_n = coords.vsop_pos, coords.nutation_longitude

    def run(which):
        def fn():
            e._jde = j
            Lx, _ = trig.input_angle(None, 'L', 0, 360)
            Bx, _ = trig.input_angle(None, 'B', -10, 10)
            coords.vsop_pos = lambda *a: (Angle(Lx), Angle(Bx), R0)
            coords.nutation_longitude = lambda *a, **k: Angle(nut)
            try:
                if which == 'fk5':
                    lon, lat, r = coords.geometric_vsop_pos(e, [], [], [])
                elif which == 'nofk5':
                    lon, lat, r = coords.geometric_vsop_pos(e, [], [], [], tofk5=False)
                elif which == 'app':
                    lon, lat, r = coords.apparent_vsop_pos(e, [], [], [])
                else:
                    lon, lat, r = coords.apparent_vsop_pos(e, [], [], [], nutation=False)
                g = coords.geometric_vsop_pos(e, [], [], []) if which in ('app', 'appnonut') else None
            finally:
                coords.vsop_pos, coords.nutation_longitude = orig, orig_n
            fa = [a for k_, a in core.CUR.atoms.items() if isinstance(k_, tuple) and k_[0] == 'free']
            return lon._deg, lat._deg, r, (g[0]._deg if g else None), fa
        return core.explore(fn, pre, trig='atoms', check_div0=False, timeout_ms=20000, max_paths=200, max_seconds=600)
    vL, vB = z3.Real('v_L'), z3.Real('v_B')
    cB, sB = z3.Real('c_B'), z3.Real('s_B')
    inp = lambda mo: {'kind': 'corr'}
    q = dict(timeout_ms=60000, retry=False)

    def turns(x):
        return x != 360 * z3.ToReal(z3.ToInt(x / 360 + z3.RealVal('1/2')))
    for which in ('nofk5',):
        ctx, paths = run(which)
        t.absorb_ctx(ctx, paths)
        bd = 'arbitrary series values L in [0, 360), |B| <= 10 degrees, R in (0.3, 31) AU, any epoch; variant %s' % which
        for i, p in enumerate(paths):
            tag = '@%s.p%d' % (which, i)
            if p.kind != 'ok':
                t.ob('corrections total' + tag, 'sat' if p.kind == 'exc' else 'unwind', 0, bd)
                continue
            lon, lat, r, glon, fa = p.val
            lon, lat, r = core.lift(lon).re(), core.lift(lat).re(), core.lift(r).re()
            t.reach += 1
            if which == 'nofk5':
                t.decide(ctx, p, 'tofk5=False leaves the series position untouched' + tag, z3.Or(turns(lon - vL), lat != vB, r != R0.e), 'C07.corr', inp, 'tofk5=False', bd, **q)
            elif which == 'fk5':
                if len(fa) < 1:
                    t.ob('FK5 correction uses cos/sin of lambda\'' + tag, 'sat', 0, bd)
                    t.cand('C07.corr', {'kind': 'corr'}, 'no trigonometric term found')
                    continue
                c1, s1 = fa[0]['c'], fa[0]['s']          # cos / sin of lambda' = L - t (1.397 + 0.00031 t)
                dl = (z3.RealVal('-0.09033') + z3.RealVal('0.03916') * (c1 + s1) * sB / cB) / 3600
                db = z3.RealVal('0.03916') * (c1 - s1) / 3600
                t.decide(ctx, p, 'FK5: d(lon) = -0.09033" + 0.03916"(cos l\' + sin l\') tan B, d(lat) = 0.03916"(cos l\' - sin l\'), r unchanged' + tag,
                         z3.Or(turns(lon - vL - dl), lat != vB + db, r != R0.e), 'C07.corr', inp, 'FK5 terms', bd, **q)
                t.decide(ctx, p, '|d(lat)| <= 0.0554 arcsec' + tag, z3.Or((lat - vB) * 3600 > z3.RealVal('0.0554'), (lat - vB) * 3600 < z3.RealVal('-0.0554')), 'C07.corr', inp,
                         'FK5 size', bd, **q)
                t.reach += 1
            else:
                g = core.lift(glon).re()
                ab = z3.RealVal('-20.4898') / R0.e / 3600
                want = g + ab + (nut.e if which == 'app' else 0)
                t.decide(ctx, p, 'apparent longitude = geometric + aberration (-20.4898"/r)%s' % (' + nutation' if which == 'app' else ', no nutation when switched off') + tag,
                         turns(lon - want), 'C07.corr', inp, 'aberration / nutation', bd, **q)
    return t


PLANETS = ['Mercury', 'Venus', 'Earth', 'Mars', 'Jupiter', 'Saturn', 'Uranus', 'Neptune']


def task_tables(pl):
    """the two clauses that are facts about the tables themselves: secular rate of the longitude series = rate of the mean
    longitude in ORBITAL_ELEM (1e-6), and n^2 a^3 = k^2 (0.1 %, 1 % Saturn..Neptune); pi is a symbolic real in its enclosure"""
    t = harness.Task('tables %s' % pl)
    m = loader.mod(pl)
    R = lambda x: z3.RealVal(repr(float(x)))
    secular = [term[0] for term in m.VSOP87_L[1] if term[1] == 0 and term[2] == 0]
    rs = z3.Sum([R(a_) for a_ in secular]) / z3.RealVal(10 ** 8) if secular else z3.RealVal(0)
    re_, a = R(m.ORBITAL_ELEM[0][1]), R(m.ORBITAL_ELEM[1][0])
    pi, pi2 = z3.Real('pi'), z3.Real('pi2')
    enc = [pi > z3.RealVal('3.141592653589793'), pi < z3.RealVal('3.141592653589794'), pi2 > z3.RealVal('9.869604401089357'), pi2 < z3.RealVal('9.869604401089360')]
    tol = 0.01 if pl in ('Saturn', 'Uranus', 'Neptune') else 0.001
    inp = lambda mo: {'kind': 'tables', 'planet': pl, 'tol': tol}
    s1 = z3.Solver()
    s1.add(*enc)
    s1.add(z3.Or(18 * rs - re_ * pi > z3.RealVal('1/1000000') * re_ * pi, re_ * pi - 18 * rs > z3.RealVal('1/1000000') * re_ * pi, re_ <= 0))
    r1 = str(s1.check())
    t.ob('secular rate of the longitude series = rate of the mean longitude of the element table (1e-6)@' + pl, r1, 0, 'pi in its 1e-15 enclosure; %d secular term(s)' % len(secular))
    # n [rad/day] = re * pi / (180 * 36525);  n^2 a^3 against ((1 +- tol) k)^2, k = 0.01720209895
    n2a3 = re_ * re_ * pi2 / z3.RealVal(6574500 ** 2) * a * a * a
    k2 = z3.RealVal('0.01720209895') * z3.RealVal('0.01720209895')
    s2 = z3.Solver()
    s2.add(*enc)
    s2.add(z3.Or(n2a3 > z3.RealVal(repr((1 + tol) ** 2)) * k2, n2a3 < z3.RealVal(repr((1 - tol) ** 2)) * k2))
    r2 = str(s2.check())
    t.ob("Kepler's third law: n^2 a^3 = k^2 within the stated tolerance@" + pl, r2, 0, 'tolerance %g on n a^1.5; pi^2 in its enclosure' % tol)
    t.reach += 2
    if r1 == 'sat' or r2 == 'sat':
        t.cand('C07.tables', inp(None), 'table consistency')
        if r1 == 'sat' and r2 == 'sat':
            t.cand('C07.tables', dict(inp(None), both=1), 'table consistency')
    return t


def dispatch(job):
    k, a = job
    return {'series': task_series, 'corr': task_corrections, 'tables': task_tables}[k](a)


def main(tier):
    loader.install()
    chk = harness.Check(PID, tier)
    chk.replays = {'C07.series': REPLAY, 'C07.corr': REPLAY, 'C07.tables': REPLAY}
    chk.functions = ['Coordinates.vsop_pos', 'Coordinates.geometric_vsop_pos', 'Coordinates.apparent_vsop_pos'] + ['%s.VSOP87_L[1] / ORBITAL_ELEM (tables)' % pl for pl in PLANETS]
    shapes = [(2, 2), (3, 1)] if tier == 'quick' else [(2, 2), (3, 1), (3, 2), (6, 1)]
    chk.run(dispatch, [('series', s) for s in shapes] + [('corr', 0)] + [('tables', pl) for pl in PLANETS], 'series evaluator and corrections')
    chk.bounds = {'table shapes': shapes, 'epoch': 'any JDE in [0, 5.4e6]'}
    chk.stubs = ['geometric/apparent_vsop_pos: vsop_pos -> arbitrary (L, B, R); nutation_longitude -> arbitrary small angle']
    chk.outside = ['size and form of the FK5 and aberration corrections (encoded in task_corrections, but Angle(0, 0, x) with a symbolic x makes the exploration exceed its 600 s budget; only tofk5=False is decided)',
                   'EVERY clause about the values of the eight real series (latitude / radius bounds, monotone longitude, agreement with the Kepler solution of the mean elements): '
                   'thousands of cosine terms of a symbolic epoch have no encoding; a changed series coefficient is NOT detected by this check',
                   'a changed coefficient other than the secular L1 term, ORBITAL_ELEM rate or semi-major axis']
    chk.assumptions = ['real arithmetic; cosines of equal arguments are the same atom']
    return chk.finish()
