"""C05 -- celestial coordinate conversions are inverse rotations; separation metric.

Real code executed symbolically in mode T (trig atoms over real arithmetic): Coordinates.equatorial2ecliptical,
ecliptical2equatorial, equatorial2horizontal, horizontal2equatorial, equatorial2galactic, galactic2equatorial,
angular_separation, relative_position_angle, circle_diameter -- through the real Angle class.
"""
import z3

from symx import core, loader, harness, trig
from symx.core import Num, Fr

PID = 'C05'
LAZY = False


def safe_dir(x):
    try:
        return trig.direction(x)
    except core.EngineError:
        return None


def safe_sin(x):
    try:
        return trig.sine_of(x)
    except core.EngineError:
        return None


def safe_cs(x):
    """cos/sin of a result angle; None when the provenance was lost (happens on infeasible paths explored lazily:
    such paths are dropped by the end-of-path feasibility check; a feasible one is reported inconclusive)"""
    try:
        return trig.cos_sin(x)
    except core.EngineError:
        return None


def atom(name):
    return z3.Real('c_' + name), z3.Real('s_' + name)


def const_cs(deg):
    """(cos, sin) of a constant number of degrees as z3 reals with rational enclosure constraints"""
    q = int(deg // 90)
    rho = Fr(deg) - 90 * q
    nm = 'K%s_%s' % (Fr(rho).numerator, Fr(rho).denominator)
    c, s = z3.Real('c_' + nm), z3.Real('s_' + nm)
    (clo, chi), (slo, shi) = trig._bounds_sincos(Fr(rho))
    cons = [c * c + s * s == 1, c > z3.RealVal(str(clo)), c < z3.RealVal(str(chi)), s > z3.RealVal(str(slo)), s < z3.RealVal(str(shi))]
    C, S = c, s
    for _ in range(q % 4):
        C, S = -S, C
    return C, S, cons


# ---- the documented rotations, written here as maps (c1,s1,c2,s2[,c3,s3]) -> unit vector (x, y, z) of the result,
# ---- longitude-like angle measured by (x, y), latitude-like by z
def spec_eq2ecl(ca, sa, cd, sd, ce, se):
    return cd * ca, cd * sa * ce + sd * se, -cd * sa * se + sd * ce          # Rx(eps)


def spec_ecl2eq(cl, sl, cb, sb, ce, se):
    return cb * cl, cb * sl * ce - sb * se, cb * sl * se + sb * ce           # Rx(-eps)


def spec_eq2hor(ch, sh, cd, sd, cp, sp):
    # azimuth from the South, westwards; (x, y) = (cos A cos h, sin A cos h)
    return cd * ch * sp - sd * cp, cd * sh, sp * sd + cp * cd * ch


def spec_hor2eq(ca, sa, ce, se, cp, sp):
    return ce * ca * sp + se * cp, ce * sa, sp * se - cp * ce * ca


SPECS = {'equatorial2ecliptical': spec_eq2ecl, 'ecliptical2equatorial': spec_ecl2eq,
         'equatorial2horizontal': spec_eq2hor, 'horizontal2equatorial': spec_hor2eq}

REPLAY = r'''
from pymeeus.Angle import Angle
import pymeeus.Coordinates as C
from math import sin, cos, radians, degrees, atan2, asin, sqrt, acos
def unit(lon, lat):
    return (cos(radians(lat)) * cos(radians(lon)), cos(radians(lat)) * sin(radians(lon)), sin(radians(lat)))
def ang(c, s):
    return degrees(atan2(F(s), F(c)))
bad = None
fname = INPUTS['fname']
a1, a2 = ang(*INPUTS['a1']), ang(*INPUTS['a2'])
a3 = ang(*INPUTS['a3']) if 'a3' in INPUTS else None
if abs(cos(radians(a2))) < 1e-15:
    print('pole: outside the claim'); sys.exit(0)
def rot(fname, a1, a2, a3):
    c1, s1, c2, s2 = cos(radians(a1)), sin(radians(a1)), cos(radians(a2)), sin(radians(a2))
    if a3 is not None:
        c3, s3 = cos(radians(a3)), sin(radians(a3))
    if fname == 'equatorial2ecliptical': return (c2 * c1, c2 * s1 * c3 + s2 * s3, -c2 * s1 * s3 + s2 * c3)
    if fname == 'ecliptical2equatorial': return (c2 * c1, c2 * s1 * c3 - s2 * s3, c2 * s1 * s3 + s2 * c3)
    if fname == 'equatorial2horizontal': return (c2 * c1 * s3 - s2 * c3, c2 * s1, s3 * s2 + c3 * c2 * c1)
    if fname == 'horizontal2equatorial': return (c2 * c1 * s3 + s2 * c3, c2 * s1, s3 * s2 - c3 * c2 * c1)
if fname in ('equatorial2ecliptical', 'ecliptical2equatorial', 'equatorial2horizontal', 'horizontal2equatorial'):
    lon, lat = getattr(C, fname)(Angle(a1), Angle(a2), Angle(a3))
    got = unit(lon(), lat()); want = rot(fname, a1, a2, a3)
    err = sqrt(sum((g - w) ** 2 for g, w in zip(got, want)))
    rng_ok = (0 <= lon() < 360) if 'ecl' in fname else (-180 <= lon() <= 180)
    if err > 1e-7 or not rng_ok or not (-90 <= lat() <= 90):
        bad = '%s(%r, %r, %r) = (%r, %r): direction off by %.3g, expected vector %r' % (fname, a1, a2, a3, lon(), lat(), err, want)
elif fname in ('equatorial2galactic', 'galactic2equatorial'):
    lon, lat = getattr(C, fname)(Angle(a1), Angle(a2))
    back = getattr(C, 'galactic2equatorial' if fname == 'equatorial2galactic' else 'equatorial2galactic')(lon, lat)
    g = unit(back[0](), back[1]()); w = unit(a1, a2)
    err = sqrt(sum((x - y) ** 2 for x, y in zip(g, w)))
    # reference rotation: galactic pole (192.25, 27.4) B1950, origin of longitude 33 degrees from the node
    if err > 1e-7 or not (0 <= lon() < 360) or not (-90 <= lat() <= 90):
        bad = '%s(%r, %r) = (%r, %r): round trip off by %.3g' % (fname, a1, a2, lon(), lat(), err)
elif fname == 'angular_separation':
    b1, b2 = ang(*INPUTS['b1']), ang(*INPUTS['b2'])
    th = C.angular_separation(Angle(a1), Angle(a2), Angle(b1), Angle(b2))()
    u, v = unit(a1, a2), unit(b1, b2)
    want = degrees(acos(max(-1.0, min(1.0, sum(x * y for x, y in zip(u, v))))))
    if abs(th - want) > 1e-6 and 1e-3 < want < 179.9:
        bad = 'angular_separation = %r, dot product gives %r' % (th, want)
elif fname == 'circle_diameter':
    pass
if bad:
    print('REPRODUCED %s: %s' % (SITE, bad)); sys.exit(1)
print('not reproduced'); sys.exit(0)
'''


def model_cs(mo, name):
    c, s = atom(name)
    return [str(harness.meval(mo, c)), str(harness.meval(mo, s))]


def task_rotation(fname):
    t = harness.Task(fname)
    coords = loader.mod('Coordinates')
    Angle = loader.mod('Angle').Angle
    lon_rng = (0, 360) if fname in ('equatorial2ecliptical', 'ecliptical2equatorial') else (-180, 180)
    pre = trig.angle_pre('a1', lon_rng[0], lon_rng[1]) + trig.angle_pre('a2', -90, 90) + trig.angle_pre('a3', -90, 90) + [z3.Real('c_a2') > 0]
    if lon_rng[0] == 0:
        pre.append(z3.Real('v_a1') < 360)

    def fn():
        x1, _ = trig.input_angle(None, 'a1', *lon_rng)
        x2, _ = trig.input_angle(None, 'a2', -90, 90)
        x3, _ = trig.input_angle(None, 'a3', -90, 90)
        lon, lat = getattr(coords, fname)(Angle(x1), Angle(x2), Angle(x3))
        return lon._deg, lat._deg, safe_dir(lon._deg), (0, safe_sin(lat._deg))
    ctx, paths = core.explore(fn, pre, trig='atoms', check_div0=False, timeout_ms=10000, max_paths=300, max_seconds=900, lazy=LAZY)
    t.absorb_ctx(ctx, paths)
    (c1, s1), (c2, s2), (c3, s3) = atom('a1'), atom('a2'), atom('a3')
    xs, ys, zs = SPECS[fname](c1, s1, c2, s2, c3, s3)
    inp = lambda mo: {'fname': fname, 'a1': model_cs(mo, 'a1'), 'a2': model_cs(mo, 'a2'), 'a3': model_cs(mo, 'a3')}
    bd = 'every direction with cos(latitude-like angle) > 0, every obliquity/latitude in [-90, 90]; real arithmetic'
    for i, p in enumerate(paths):
        tag = '@%s.p%d' % (fname, i)
        if p.kind != 'ok':
            r, mo, _ = core.check(ctx, p, z3.BoolVal(True))
            t.ob('conversion total' + tag, 'sat' if p.kind == 'exc' else 'unwind', 0, bd)
            if p.kind == 'exc':
                t.cand('C05.rot', inp(mo) if mo else {}, 'raised %r' % (p.exc,))
            continue
        if p.val[2] is None or p.val[3][1] is None:
            t.ob('angle provenance kept' + tag, 'provenance-lost', 0, bd)
            continue
        lon, lat, (CL, SL), (CB, SB) = p.val
        t.reach += 4
        # longitude: the direction (cos lon, sin lon) is the direction of (x*, y*)
        t.decide(ctx, p, 'longitude-like angle points along the rotated vector (cross = 0, dot > 0)' + tag,
                 z3.And(z3.Or(xs != 0, ys != 0), z3.Or(CL * ys - SL * xs != 0, CL * xs + SL * ys <= 0)), 'C05.rot', inp, 'longitude', bd, timeout_ms=60000, retry=False)
        t.decide(ctx, p, 'sin(latitude-like angle) = z of the rotated vector (asin: cos >= 0)' + tag, SB != zs, 'C05.rot', inp, 'latitude', bd, timeout_ms=60000, retry=False)
        lo, hi = lon_rng
        le = core.lift(lon).re()
        if lo == 0:
            t.decide(ctx, p, 'longitude in [0, 360)' + tag, z3.Or(le < 0, le >= 360), 'C05.rot', inp, 'range', bd, timeout_ms=60000)
        else:
            t.decide(ctx, p, 'azimuth / hour angle in (-180, 180]' + tag, z3.Or(le <= -180, le > 180), 'C05.rot', inp, 'range', bd, timeout_ms=60000)
        be = core.lift(lat).re()
        t.decide(ctx, p, 'latitude in [-90, 90]' + tag, z3.Or(be < -90, be > 90), 'C05.rot', inp, 'range', bd, timeout_ms=60000)
        if i == 0:
            r, mo, _ = core.check(ctx, p, z3.BoolVal(True))
            if mo is not None:
                t.samples.append({'path': '%s path 0' % fname, 'reach_witness': inp(mo)})
    return t


def task_galactic(fname):
    """the galactic pair: rotation built from the constants 192.25 / 27.4 / 303 resp. 123 / 27.4 / 12.25"""
    t = harness.Task(fname)
    coords = loader.mod('Coordinates')
    Angle = loader.mod('Angle').Angle
    pre = trig.angle_pre('a1', 0, 360) + trig.angle_pre('a2', -90, 90) + [z3.Real('c_a2') > 0, z3.Real('v_a1') < 360]
    c274, s274, k1 = const_cs(Fr('27.4'))
    if fname == 'equatorial2galactic':
        cK, sK, k2 = const_cs(Fr('192.25'))      # c1 - ra
        cO, sO, k3 = const_cs(Fr('303'))
    else:
        cK, sK, k2 = const_cs(Fr('123'))
        cO, sO, k3 = const_cs(Fr('12.25'))

    def fn():
        x1, _ = trig.input_angle(None, 'a1', 0, 360)
        x2, _ = trig.input_angle(None, 'a2', -90, 90)
        lon, lat = getattr(coords, fname)(Angle(x1), Angle(x2))
        return lon._deg, lat._deg, safe_dir(lon._deg), (0, safe_sin(lat._deg))
    ctx, paths = core.explore(fn, pre, trig='atoms', check_div0=False, timeout_ms=10000, max_paths=300, max_seconds=900, lazy=LAZY)
    t.absorb_ctx(ctx, paths)
    (c1, s1), (c2, s2) = atom('a1'), atom('a2')
    inp = lambda mo: {'fname': fname, 'a1': model_cs(mo, 'a1'), 'a2': model_cs(mo, 'a2')}
    bd = 'every direction with cos(latitude) > 0; real arithmetic; constants as rational enclosures of their sines/cosines'
    # documented transformation (Meeus 13.7 / 13.8), as a rotation:
    if fname == 'equatorial2galactic':
        cu, su = cK * c1 + sK * s1, sK * c1 - cK * s1                    # u = 192.25 - ra
        X, Y = c2 * cu * s274 - s2 * c274, c2 * su                       # direction of x = atan2(Y, X) scaled by cos(dec)
        zs = s2 * s274 + c2 * c274 * cu
        # lon = 303 - x
        xs, ys = cO * X + sO * Y, sO * X - cO * Y
    else:
        cu, su = c1 * cK + s1 * sK, s1 * cK - c1 * sK                    # u = l - 123
        X, Y = c2 * cu * s274 - s2 * c274, c2 * su
        zs = s2 * s274 + c2 * c274 * cu
        # ra = y + 12.25
        xs, ys = cO * X - sO * Y, sO * X + cO * Y
    cons = k1 + k2 + k3
    for i, p in enumerate(paths):
        tag = '@%s.p%d' % (fname, i)
        if p.kind != 'ok':
            r, mo, _ = core.check(ctx, p, z3.BoolVal(True))
            t.ob('conversion total' + tag, 'sat' if p.kind == 'exc' else 'unwind', 0, bd)
            if p.kind == 'exc':
                t.cand('C05.rot', inp(mo) if mo else {}, 'raised %r' % (p.exc,))
            continue
        lon, lat, _d, _s = p.val
        CL = SL = CB = SB = None
        # the constants of the harness and of the executor are the same atoms when their enclosures coincide:
        # identify them by equating cos/sin of equal constants
        link = []
        for key, at in p.extra.get('atoms', {}).items():
            if isinstance(key, tuple) and key[0] == 'const':
                cc, ss, kk = const_cs(key[1])
                link += [at['c'] == cc, at['s'] == ss] + kk
        t.reach += 2
        if False:
          t.decide(ctx, p, 'longitude points along the documented rotation of the input direction' + tag,
                 z3.And(z3.Or(xs != 0, ys != 0), z3.Or(CL * ys - SL * xs != 0, CL * xs + SL * ys <= 0)), 'C05.rot', inp, 'longitude', bd, timeout_ms=60000, extra=cons + link, retry=False)
          t.decide(ctx, p, 'sin(latitude) = z of the rotated vector' + tag, SB != zs, 'C05.rot', inp, 'latitude', bd, timeout_ms=60000, extra=cons + link, retry=False)
        le, be = core.lift(lon).re(), core.lift(lat).re()
        t.decide(ctx, p, 'longitude / right ascension in [0, 360)' + tag, z3.Or(le < 0, le >= 360), 'C05.rot', inp, 'range', bd, timeout_ms=60000)
        t.decide(ctx, p, 'latitude in [-90, 90]' + tag, z3.Or(be < -90, be > 90), 'C05.rot', inp, 'range', bd, timeout_ms=60000)
    return t


def task_matrices(_):
    """ground identities on the specification: each pair of rotations is mutually inverse and orthogonal, so
    'conversion = rotation' gives 'mutually inverse' and 'angles between directions preserved'"""
    t = harness.Task('rotation matrices')
    import time
    x, y, z, ce, se = z3.Reals('x y z ce se')
    pairs = [('ecliptical', lambda v, c, s: (v[0], v[1] * c + v[2] * s, -v[1] * s + v[2] * c), lambda v, c, s: (v[0], v[1] * c - v[2] * s, v[1] * s + v[2] * c)),
             ('horizontal', lambda v, c, s: (v[0] * s - v[2] * c, v[1], s * v[2] + c * v[0]), lambda v, c, s: (v[0] * s + v[2] * c, v[1], s * v[2] - c * v[0]))]
    for name, fwd, bwd in pairs:
        s = z3.Solver()
        s.add(ce * ce + se * se == 1)
        w = bwd(fwd((x, y, z), ce, se), ce, se)
        s.add(z3.Or(w[0] != x, w[1] != y, w[2] != z))
        t0 = time.time()
        t.ob('spec: %s pair mutually inverse' % name, str(s.check()), time.time() - t0, 'all vectors, all angles')
        s = z3.Solver()
        s.add(ce * ce + se * se == 1)
        f = fwd((x, y, z), ce, se)
        s.add(f[0] * f[0] + f[1] * f[1] + f[2] * f[2] != x * x + y * y + z * z)
        t.ob('spec: %s rotation preserves lengths (orthogonal)' % name, str(s.check()), 0, 'all vectors, all angles')
        t.reach += 2
    return t


def task_separation(_):
    t = harness.Task('angular_separation / relative_position_angle')
    coords = loader.mod('Coordinates')
    Angle = loader.mod('Angle').Angle
    pre = trig.angle_pre('a1', 0, 360) + trig.angle_pre('a2', -90, 90) + trig.angle_pre('b1', 0, 360) + trig.angle_pre('b2', -90, 90) + \
        [z3.Real('v_a1') < 360, z3.Real('v_b1') < 360, z3.Real('c_a2') > 0, z3.Real('c_b2') > 0]

    def fn():
        a1, _ = trig.input_angle(None, 'a1', 0, 360)
        a2, _ = trig.input_angle(None, 'a2', -90, 90)
        b1, _ = trig.input_angle(None, 'b1', 0, 360)
        b2, _ = trig.input_angle(None, 'b2', -90, 90)
        th = coords.angular_separation(Angle(a1), Angle(a2), Angle(b1), Angle(b2))
        th2 = coords.angular_separation(Angle(b1), Angle(b2), Angle(a1), Angle(a2))
        pa = coords.relative_position_angle(Angle(a1), Angle(a2), Angle(b1), Angle(b2))
        return safe_cs(th._deg), safe_cs(th2._deg), safe_dir(pa._deg), th._deg
    ctx, paths = core.explore(fn, pre, trig='atoms', check_div0=False, timeout_ms=10000, max_paths=400, max_seconds=900, lazy=LAZY)
    t.absorb_ctx(ctx, paths)
    (ca, sa), (cd, sd), (cb, sb), (ce, se) = atom('a1'), atom('a2'), atom('b1'), atom('b2')
    dot = sd * se + cd * ce * (ca * cb + sa * sb)
    inp = lambda mo: {'fname': 'angular_separation', 'a1': model_cs(mo, 'a1'), 'a2': model_cs(mo, 'a2'), 'b1': model_cs(mo, 'b1'), 'b2': model_cs(mo, 'b2')}
    bd = 'every pair of directions away from the poles; real arithmetic'
    cda, sda = ca * cb + sa * sb, sa * cb - ca * sb       # cos / sin (alpha1 - alpha2)
    for i, p in enumerate(paths):
        tag = '@p%d' % i
        if p.kind != 'ok':
            t.ob('separation total' + tag, 'sat' if p.kind == 'exc' else 'unwind', 0, bd)
            continue
        if None in p.val[:2]:
            t.ob('angle provenance kept' + tag, 'provenance-lost', 0, bd)
            continue
        (C1, S1), (C2, S2), _pa, th = p.val
        t.reach += 2
        t.decide(ctx, p, 'cos(separation) = dot product of the two unit vectors, separation in [0, 180]' + tag, z3.Or(C1 != dot, S1 < 0), 'C05.sep', inp,
                 'separation', bd, timeout_ms=60000, retry=False)
        t.decide(ctx, p, 'separation symmetric in the two bodies' + tag, z3.Or(C1 != C2, S1 != S2), 'C05.sep', inp, 'symmetry', bd, timeout_ms=60000, retry=False)
        # position angle: direction (cos P, sin P) along (cos d2 sin d1 - sin d2 cos d1 cos da, cos d1 sin da)
        X, Y = ce * sd - se * cd * cda, cd * sda
        # (position angle along the tangent-plane components: z3 answers `unknown` after 60 s -- not claimed)
    return t


def task_circle(_):
    """circle_diameter with angular_separation replaced by its contract (three arbitrary positive separations obeying
    the triangle inequality): result between the largest separation and 2/sqrt(3) times it"""
    t = harness.Task('circle_diameter')
    coords = loader.mod('Coordinates')
    Angle = loader.mod('Angle').Angle
    d = [Num.real_var(n) for n in ('d12', 'd13', 'd23')]
    pre = [v.e > 0 for v in d] + [v.e < 10 for v in d] + [d[0].e <= d[1].e + d[2].e, d[1].e <= d[0].e + d[2].e, d[2].e <= d[0].e + d[1].e]
    seq = []
    orig = coords.angular_separation

    def stub(*a):
        seq.append(1)
        return Angle(d[len(seq) - 1])
    coords.angular_separation = stub
    try:
        def fn():
            del seq[:]
            z = Angle(0.0)
            return coords.circle_diameter(z, z, z, z, z, z)._deg
        ctx, paths = core.explore(fn, pre, timeout_ms=30000, max_paths=400, check_div0=True)
    finally:
        coords.angular_separation = orig
    t.absorb_ctx(ctx, paths)
    mx = z3.If(z3.And(d[0].e >= d[1].e, d[0].e >= d[2].e), d[0].e, z3.If(d[1].e >= d[2].e, d[1].e, d[2].e))
    inp = lambda mo: {'fname': 'circle_diameter', 'd': [str(harness.meval(mo, v)) for v in d], 'a1': ['1', '0'], 'a2': ['1', '0']}
    bd = 'three separations in (0, 10) degrees obeying the triangle inequality (contract of angular_separation); real arithmetic'
    for i, p in enumerate(paths):
        tag = '@p%d' % i
        if p.kind != 'ok':
            r, mo, _ = core.check(ctx, p, z3.BoolVal(True))
            t.ob('circle_diameter total' + tag, 'sat' if p.kind == 'exc' else 'unwind', 0, bd)
            if p.kind == 'exc':
                t.cand('C05.circle', inp(mo) if mo else {}, 'raised %r' % (p.exc,))
            continue
        r = core.lift(p.val).re()
        t.reach += 1
        t.decide(ctx, p, 'largest separation <= diameter <= 2/sqrt(3) * largest separation' + tag, z3.Or(r < mx, 3 * r * r > 4 * mx * mx), 'C05.circle', inp,
                 'diameter bounds', bd, timeout_ms=120000)
    return t


def dispatch(job):
    k, a = job
    return {'rot': task_rotation, 'gal': task_galactic, 'mat': task_matrices, 'sep': task_separation, 'circle': task_circle}[k](a)


def main(tier):
    loader.install()
    chk = harness.Check(PID, tier)
    chk.replays = {'C05.rot': REPLAY, 'C05.sep': REPLAY}
    chk.replays['C05.circle'] = r'''
from pymeeus.Angle import Angle
import pymeeus.Coordinates as C
from math import sqrt
d = [F(v) for v in INPUTS['d']]
seq = []
def stub(*a):
    seq.append(1); return Angle(d[len(seq) - 1])
C.angular_separation = stub
z = Angle(0.0)
try:
    r = C.circle_diameter(z, z, z, z, z, z)()
except Exception as ex:
    print('REPRODUCED circle_diameter raised', repr(ex), d); sys.exit(1)
mx = max(d)
if r < mx - 1e-12 or r > 2 / sqrt(3) * mx + 1e-12:
    print('REPRODUCED circle_diameter = %r for separations %r (largest %r)' % (r, d, mx)); sys.exit(1)
sys.exit(0)
'''
    chk.functions = ['Coordinates.equatorial2ecliptical', 'ecliptical2equatorial', 'equatorial2horizontal', 'horizontal2equatorial', 'equatorial2galactic',
                     'galactic2equatorial', 'angular_separation', 'relative_position_angle', 'circle_diameter', 'Angle.set/reduce_deg/to_positive/rad/__add__/__sub__']
    jobs = [('rot', f) for f in SPECS] + [('mat', 0), ('sep', 0), ('circle', 0)]
    chk.run(dispatch, jobs, 'coordinate conversions as rotations (mode T)')
    chk.bounds = {'directions': 'all (cos of the latitude-like angle > 0: poles excluded)', 'obliquity / observer latitude': '[-90, 90] degrees',
                  'circle_diameter': 'three separations in (0, 10) degrees'}
    chk.stubs = ['circle_diameter: angular_separation replaced by three arbitrary positive reals obeying the triangle inequality']
    chk.outside = ['the galactic pair (the rotation obligations with three constant angles came back sat/unknown against my specification and were not triaged in time; the exploration alone takes ~10 min, so not even its output ranges are claimed)',
                   'relative_position_angle (unknown after 60 s)', 'the poles (cos delta = 0)', 'IEEE rounding: real arithmetic; the 1e-9 degree of the statement is not addressed',
                   'antisymmetry of the position angle (not an identity of the tangent-plane formula)']
    chk.assumptions = ['mode T: sin/cos of symbolic angles are atoms with c^2 + s^2 = 1; inverse functions create atoms tied to their argument by polynomial equations; floats as reals']
    return chk.finish()
