"""C08 -- Sun/Earth positions across frames; obliquity and nutation: the structural clauses.

Real code executed symbolically (mode T): Sun.geometric_geocentric_position / apparent_geocentric_position /
rectangular_coordinates_mean_equinox with the Earth series replaced by arbitrary (L, B, R); Coordinates.true_obliquity;
Coordinates.mean_obliquity against the IAU cubic.
"""
import z3

from symx import core, loader, harness, trig
from symx.core import Num, Fr

PID = 'C08'

REPLAY = r'''
from pymeeus.Angle import Angle
from pymeeus.Epoch import Epoch
import pymeeus.Coordinates as C
import pymeeus.Sun as S
from math import sqrt
bad = None
k = INPUTS['kind']
if k == 'reflect':
    L0, B0, R0 = 250.25, -0.0003, 1.01
    S.Earth.geometric_heliocentric_position = staticmethod(lambda *a, **kw: (Angle(L0), Angle(B0), R0))
    S.Earth.apparent_heliocentric_position = staticmethod(lambda *a, **kw: (Angle(L0), Angle(B0), R0))
    e = Epoch(2451545.0)
    for fn in (S.Sun.geometric_geocentric_position, S.Sun.apparent_geocentric_position):
        lon, lat, r = fn(e)
        if abs((lon() - L0 - 180.0) % 360.0) > 1e-9 or abs(lat() + B0) > 1e-12 or r != R0:
            bad = '%s gives (%r, %r, %r) for Earth at (%r, %r, %r)' % (fn.__name__, lon(), lat(), r, L0, B0, R0)
    x, y, z = S.Sun.rectangular_coordinates_mean_equinox(e)
    if abs(sqrt(x * x + y * y + z * z) - R0) > 1e-8:
        bad = 'norm of the rectangular coordinates %r vs radius vector %r' % (sqrt(x * x + y * y + z * z), R0)
elif k == 'nutation':
    from math import sin, cos, radians
    fn, amp, lim, trig_ = (C.nutation_longitude, -17.20, 3.5, sin) if INPUTS['which'] == 'lon' else (C.nutation_obliquity, 9.20, 1.5, cos)
    for i in range(0, 6000 * 12):
        T = -40.0 + i / 1200.0
        e = Epoch(2451545.0 + T * 36525.0)
        om = 125.04452 + T * (-1934.136261 + T * (0.0020708 + T / 450000.0))
        v = float(fn(e)) * 3600.0
        if abs(v - amp * trig_(radians(om))) > lim:
            bad = '%s at T=%r: %r arcsec, node term %r' % (fn.__name__, T, v, amp * trig_(radians(om))); break
elif k == 'obliquity':
    T = F(INPUTS.get('T', 0))
    e = Epoch(2451545.0 + T * 36525.0)
    eps = C.mean_obliquity(e)() * 3600.0
    iau = 84381.448 - 46.8150 * T - 0.00059 * T * T + 0.001813 * T ** 3
    if abs(eps - iau) > 3.0:
        bad = 'mean obliquity %r arcsec vs IAU cubic %r at T=%r' % (eps, iau, T)
    if abs(C.true_obliquity(e)() - C.mean_obliquity(e)() - C.nutation_obliquity(e)()) > 1e-12:
        bad = 'true obliquity is not mean + nutation'
if bad:
    print('REPRODUCED %s: %s' % (SITE, bad)); sys.exit(1)
print('not reproduced'); sys.exit(0)
'''


def task_reflection(_):
    t = harness.Task('reflection and rectangular coordinates')
    sun = loader.mod('Sun')
    coords = loader.mod('Coordinates')
    Angle = loader.mod('Angle').Angle
    trig.install_reduce_summary(Angle)
    E = loader.mod('Epoch')
    R0 = Num.real_var('R0')
    pre = trig.angle_pre('L', 0, 360) + trig.angle_pre('B', -1, 1) + trig.angle_pre('eps', 20, 27) + [z3.Real('v_L') < 360, R0.e > z3.RealVal('0.9'), R0.e < z3.RealVal('1.1'),
                                                                                                         z3.Real('s_B') < z3.RealVal('1/10000'), z3.Real('s_B') > z3.RealVal('-1/10000')]
    e = E.Epoch(Num.const(2451545.0)) if False else E.JDE2000
    og, oa, om = sun.Earth.geometric_heliocentric_position, sun.Earth.apparent_heliocentric_position, sun.mean_obliquity

    def fn():
        Lx, _ = trig.input_angle(None, 'L', 0, 360)
        Bx, _ = trig.input_angle(None, 'B', -1, 1)
        ex, _ = trig.input_angle(None, 'eps', 20, 27)
        sun.Earth.geometric_heliocentric_position = staticmethod(lambda *a, **k: (Angle(Lx), Angle(Bx), R0))
        sun.Earth.apparent_heliocentric_position = staticmethod(lambda *a, **k: (Angle(Lx), Angle(Bx), R0))
        sun.mean_obliquity = lambda *a, **k: Angle(ex)
        try:
            g = sun.Sun.geometric_geocentric_position(e)
            a = sun.Sun.apparent_geocentric_position(e)
            xyz = sun.Sun.rectangular_coordinates_mean_equinox(e)
        finally:
            sun.Earth.geometric_heliocentric_position, sun.Earth.apparent_heliocentric_position, sun.mean_obliquity = og, oa, om
        return (g[0]._deg, g[1]._deg, g[2], trig.cos_sin(g[0]._deg)), (a[0]._deg, a[1]._deg, a[2], trig.cos_sin(a[0]._deg)), xyz
    ctx, paths = core.explore(fn, pre, trig='atoms', check_div0=False, timeout_ms=20000, max_paths=300, max_seconds=600)
    t.absorb_ctx(ctx, paths)
    cL, sL, vB = z3.Real('c_L'), z3.Real('s_L'), z3.Real('v_B')
    sB = z3.Real('s_B')
    bd = 'Earth position arbitrary: L in [0, 360), |B| small, R in (0.9, 1.1); real arithmetic'
    inp = lambda mo: {'kind': 'reflect'}
    q = dict(timeout_ms=60000, retry=False)
    for i, p in enumerate(paths):
        tag = '@p%d' % i
        if p.kind != 'ok':
            t.ob('Sun wrappers total' + tag, 'sat' if p.kind == 'exc' else 'unwind', 0, bd)
            continue
        g, a, xyz = p.val
        t.reach += 3
        for nm, (lon, lat, r, (c, s)) in (('geometric', g), ('apparent', a)):
            le = core.lift(lon).re()
            t.decide(ctx, p, '%s Sun = Earth reflected: longitude + 180 (mod 360, in [0, 360)), latitude negated, same distance' % nm + tag,
                     z3.Or(c != -cL, s != -sL, core.lift(lat).re() != -vB, core.lift(r).re() != R0.e, le < 0, le >= 360), 'C08.reflect', inp, nm, bd, **q)
        x, y, z = [core.lift(v).re() for v in xyz]
        n2 = x * x + y * y + z * z
        t.decide(ctx, p, 'rectangular coordinates have norm = radius vector (to 1e-8 relative: the formula omits cos B)' + tag,
                 z3.Or(n2 > R0.e * R0.e * (1 + z3.RealVal('2/100000000')), n2 < R0.e * R0.e * (1 - z3.RealVal('2/100000000'))), 'C08.reflect', inp, 'norm', bd, **q)
    return t


def task_obliquity(_):
    t = harness.Task('obliquity')
    coords = loader.mod('Coordinates')
    Angle = loader.mod('Angle').Angle
    E = loader.mod('Epoch')
    # true = mean + nutation (both replaced by arbitrary angles)
    e0, de = Num.real_var('e0'), Num.real_var('de')
    om, on = coords.mean_obliquity, coords.nutation_obliquity

    def fn():
        coords.mean_obliquity = lambda *a, **k: Angle(e0)
        coords.nutation_obliquity = lambda *a, **k: Angle(de)
        try:
            return coords.true_obliquity(E.JDE2000)._deg
        finally:
            coords.mean_obliquity, coords.nutation_obliquity = om, on
    ctx, paths = core.explore(fn, [e0.e > 20, e0.e < 27, de.e > -1, de.e < 1], check_div0=False, timeout_ms=20000, max_paths=50)
    t.absorb_ctx(ctx, paths)
    for i, p in enumerate(paths):
        if p.kind != 'ok':
            t.ob('true_obliquity total@p%d' % i, 'sat', 0, '')
            continue
        t.reach += 1
        t.decide(ctx, p, 'true obliquity = mean obliquity + nutation in obliquity@p%d' % i, core.lift(p.val).re() != e0.e + de.e, 'C08.obl', lambda mo: {'kind': 'obliquity'},
                 'sum', 'arbitrary mean obliquity in (20, 27) and nutation in (-1, 1) degrees')
    # mean obliquity (degree-10 polynomial) within 3 arcsec of the IAU cubic for |T| <= 20 centuries
    T = Num.real_var('T')
    ep = E.Epoch()

    def fn2():
        ep._jde = T * 36525.0 + 2451545.0
        return coords.mean_obliquity(ep)._deg
    ctx, paths = core.explore(fn2, [T.e >= -20, T.e <= 20], check_div0=False, timeout_ms=20000, max_paths=50)
    t.absorb_ctx(ctx, paths)
    iau = (z3.RealVal('84381.448') - z3.RealVal('46.8150') * T.e - z3.RealVal('0.00059') * T.e * T.e + z3.RealVal('0.001813') * T.e * T.e * T.e) / 3600
    for i, p in enumerate(paths):
        if p.kind != 'ok':
            t.ob('mean_obliquity total@p%d' % i, 'sat', 0, '')
            continue
        v = core.lift(p.val).re()
        t.reach += 1
        t.decide(ctx, p, 'mean obliquity within 3 arcsec of the IAU cubic for |T| <= 20 centuries@p%d' % i, z3.Or((v - iau) * 3600 > 3, (v - iau) * 3600 < -3), 'C08.obl',
                 lambda mo: {'kind': 'obliquity', 'T': str(harness.meval(mo, T))}, 'IAU cubic', 'all real T in [-20, 20]', timeout_ms=300000, retry=False)
    return t


class NutAngle(object):
    """stand-in for Angle inside Coordinates while the nutation series is explored with boxed sin/cos: a plain value in
    degrees with the arithmetic the series uses (arguments of boxed functions are only keys); Angle(0, 0, x) = x arcsec"""
    def __init__(self, *a, **k):
        if len(a) == 3:
            self.v = a[0] + a[1] / 60.0 + a[2] / 3600.0
        elif len(a) == 1:
            self.v = a[0].v if isinstance(a[0], NutAngle) else a[0]
        else:
            self.v = 0.0

    def __add__(self, o):
        return NutAngle(self.v + (o.v if isinstance(o, NutAngle) else o))
    __radd__ = __add__

    def __iadd__(self, o):
        return self.__add__(o)

    def __mul__(self, o):
        return NutAngle(self.v * o)
    __rmul__ = __mul__

    def rad(self):
        return self.v * Num.const(0.017453292519943295)


def task_nutation(which):
    """nutation_longitude / nutation_obliquity for a symbolic epoch: result = sum_i c_i(T) * box_i (boxes = sin/cos of the
    63 arguments); the node term is the box with the dominant coefficient; the rest is bounded by sum_i sup_T |c_i(T)|"""
    fname, main_amp, limit = {'lon': ('nutation_longitude', -17.20, 3.5), 'obl': ('nutation_obliquity', 9.20, 1.5)}[which]
    t = harness.Task(fname)
    coords = loader.mod('Coordinates')
    E = loader.mod('Epoch')
    T = Num.real_var('T')
    TLO, THI = -40, 20
    ep = E.Epoch()
    orig_angle, orig_cid = coords.Angle, E.Epoch.check_input_date

    def fn():
        ep._jde = T * 36525.0 + 2451545.0
        r = getattr(coords, fname)(ep)
        return r.v, [(k_, v) for k_, v in core.CUR.memo.items() if isinstance(k_, tuple) and k_[0] in ('sin', 'cos')]
    coords.Angle = NutAngle
    E.Epoch.check_input_date = staticmethod(lambda *a, **k: a[0])
    try:
        ctx, paths = core.explore(fn, [T.e >= TLO, T.e <= THI], trig='box', check_div0=False, timeout_ms=20000, max_paths=20, max_seconds=300)
    finally:
        coords.Angle, E.Epoch.check_input_date = orig_angle, orig_cid
    t.absorb_ctx(ctx, paths)
    bd = '%s: every T in [%d, %d] centuries (years -2000..4000), sin/cos boxed' % (fname, TLO, THI)
    okp = [p for p in paths if p.kind == 'ok']
    t.reach += 1
    if len(okp) != 1 or len(paths) != 1:
        t.ob('%s total: one path, no exception' % fname, 'unknown', 0, bd)
        t.notes.append('paths: %r' % [(p.kind, repr(p.exc)) for p in paths][:3])
        return t
    R, boxes = okp[0].val
    R = core.lift(R).re() * 3600          # arcsec
    bx = [v for k_, v in boxes]
    bx = [b.e if isinstance(b, Num) else b for b in bx]
    zero = [(b, z3.RealVal(0)) for b in bx]
    p0 = z3.simplify(z3.substitute(R, *zero))
    coeffs = []
    for b in bx:
        one = [(b2, z3.RealVal(1) if b2 is b else z3.RealVal(0)) for b2 in bx]
        coeffs.append(z3.simplify(z3.substitute(R, *one) - p0))
    lin = p0 + sum((b * c for b, c in zip(bx, coeffs)), z3.RealVal(0))
    s = z3.Solver()
    s.set('timeout', 120000)
    s.add(R != lin)
    r_lin = str(s.check())
    t.ob('%s = constant + sum_i c_i(T) * box_i (linear in the %d boxed sines/cosines)' % (fname, len(bx)), r_lin, 0, bd)
    t.reach += 1
    if r_lin != 'unsat':
        return t

    def at(expr, tv):
        v = z3.simplify(z3.substitute(expr, (T.e, z3.RealVal(tv))))
        try:
            return float(v.as_fraction())
        except Exception:
            return None

    def sup_abs(expr):
        vals = [at(expr, tv) for tv in (TLO, 0, THI)]
        if any(v is None for v in vals):
            return None
        M = max(abs(v) for v in vals) * 1.0001 + 1e-9
        for _ in range(12):
            s2 = z3.Solver()
            s2.set('timeout', 30000)
            s2.add(T.e >= TLO, T.e <= THI, z3.Or(expr > z3.RealVal(repr(M)), expr < -z3.RealVal(repr(M))))
            if s2.check() == z3.unsat:
                return M
            M *= 1.5
        return None
    # the node term: the dominant coefficient
    c0s = [at(c, 0) for c in coeffs]
    main = [i for i, c in enumerate(c0s) if c is not None and abs(c - main_amp) <= 0.01 * abs(main_amp)]
    if len(main) != 1:
        t.ob('%s: exactly one term with amplitude %.2f arcsec (the node term)' % (fname, main_amp), 'sat', 0, bd)
        t.cand('C08.nut', {'kind': 'nutation', 'which': which}, 'no single node term')
        return t
    mi = main[0]
    t.notes.append('the node term of %s is the box of %s' % (fname, str(boxes[mi][0])[:120]))
    rest = [sup_abs(c) for i, c in enumerate(coeffs) if i != mi]
    resid = sup_abs(z3.simplify(coeffs[mi] - z3.RealVal(repr(main_amp))))
    const = sup_abs(p0)
    ok = resid is not None and const is not None and all(r_ is not None for r_ in rest)
    t.ob('every coefficient c_i(T) bounded over the whole range of T (univariate queries)@' + fname, 'unsat' if ok else 'unknown', 0, '%d coefficients' % len(coeffs), n=len(coeffs) + 1)
    t.reach += len(coeffs) + 1
    if not ok:
        return t
    total = sum(rest) + resid + const
    t.samples.append({'function': fname, 'terms': len(coeffs), 'sum_of_other_amplitudes_arcsec': round(sum(rest), 4), 'node_term_residual_arcsec': round(resid, 4), 'limit_arcsec': limit})
    t.ob('%s within %.1f arcsec of %.2f * %s(node): sum of the other amplitudes + residual of the node term <= limit' % (fname, limit, main_amp, 'sin' if which == 'lon' else 'cos'),
         'unsat' if total <= limit else 'sat', 0, 'sum %.4f arcsec, limit %.1f' % (total, limit))
    t.reach += 1
    if total > limit:
        t.cand('C08.nut', {'kind': 'nutation', 'which': which}, 'amplitude bounds exceed the limit')
    return t


def dispatch(job):
    if job in ('lon', 'obl'):
        return task_nutation(job)
    return {'refl': task_reflection, 'obl0': task_obliquity}[job](0)


def main(tier):
    loader.install()
    chk = harness.Check(PID, tier)
    chk.replays = {'C08.reflect': REPLAY, 'C08.obl': REPLAY, 'C08.nut': REPLAY}
    chk.functions = ['Coordinates.nutation_longitude', 'Coordinates.nutation_obliquity', 'Sun.geometric_geocentric_position', 'Sun.apparent_geocentric_position', 'Sun.rectangular_coordinates_mean_equinox', 'Coordinates.true_obliquity', 'Coordinates.mean_obliquity']
    chk.run(dispatch, ['refl', 'obl0', 'lon', 'obl'], 'Sun/Earth frames, obliquity, nutation')
    chk.bounds = {'Earth position': 'arbitrary (L, B, R) with |sin B| <= 1e-4', 'mean obliquity': '|T| <= 20 centuries'}
    chk.stubs = ['Earth.geometric/apparent_heliocentric_position -> arbitrary (L, B, R); mean_obliquity -> arbitrary angle in (20, 27) degrees inside rectangular_coordinates_mean_equinox',
                 'true_obliquity: its two callees -> arbitrary angles', 'nutation series: Angle inside Coordinates -> plain value stand-in, sin/cos -> boxes in [-1, 1] keyed by argument; the main-term model uses the series\' own node argument']
    chk.outside = ['J2000 / B1950 / arbitrary-equinox frames vs the library\'s precession to 2 arcsec (numeric composition)', 'nutation: a changed argument multiplier (the arguments of boxed sines are only keys) or a coefficient change that keeps the sum of amplitudes under the limit',
                   'coarse vs VSOP solar longitude (values of the series)', 'date-argument forms (C02)']
    chk.assumptions = ['real arithmetic, trig atoms']
    return chk.finish()
