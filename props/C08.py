"""C08 -- Sun/Earth positions across frames; obliquity and nutation: the structural clauses.

Real code executed symbolically (mode T): Sun.geometric_geocentric_position / apparent_geocentric_position /
rectangular_coordinates_mean_equinox with the Earth series replaced by arbitrary (L, B, R); Coordinates.true_obliquity;
Coordinates.mean_obliquity against the IAU cubic.
"""
import z3

from symx import core, loader, harness, trig
from symx.core import Num, Fr

PID = 'C08'

REPLAY = r'''
from pymeeus.Angle import Angle
from pymeeus.Epoch import Epoch
import pymeeus.Coordinates as C
import pymeeus.Sun as S
from math import sqrt
bad = None
k = INPUTS['kind']
if k == 'reflect':
    L0, B0, R0 = 250.25, -0.0003, 1.01
    S.Earth.geometric_heliocentric_position = staticmethod(lambda *a, **kw: (Angle(L0), Angle(B0), R0))
    S.Earth.apparent_heliocentric_position = staticmethod(lambda *a, **kw: (Angle(L0), Angle(B0), R0))
    e = Epoch(2451545.0)
    for fn in (S.Sun.geometric_geocentric_position, S.Sun.apparent_geocentric_position):
        lon, lat, r = fn(e)
        if abs((lon() - L0 - 180.0) % 360.0) > 1e-9 or abs(lat() + B0) > 1e-12 or r != R0:
            bad = '%s gives (%r, %r, %r) for Earth at (%r, %r, %r)' % (fn.__name__, lon(), lat(), r, L0, B0, R0)
    x, y, z = S.Sun.rectangular_coordinates_mean_equinox(e)
    if abs(sqrt(x * x + y * y + z * z) - R0) > 1e-8:
        bad = 'norm of the rectangular coordinates %r vs radius vector %r' % (sqrt(x * x + y * y + z * z), R0)
elif k == 'obliquity':
    T = F(INPUTS.get('T', 0))
    e = Epoch(2451545.0 + T * 36525.0)
    eps = C.mean_obliquity(e)() * 3600.0
    iau = 84381.448 - 46.8150 * T - 0.00059 * T * T + 0.001813 * T ** 3
    if abs(eps - iau) > 3.0:
        bad = 'mean obliquity %r arcsec vs IAU cubic %r at T=%r' % (eps, iau, T)
    if abs(C.true_obliquity(e)() - C.mean_obliquity(e)() - C.nutation_obliquity(e)()) > 1e-12:
        bad = 'true obliquity is not mean + nutation'
if bad:
    print('REPRODUCED %s: %s' % (SITE, bad)); sys.exit(1)
print('not reproduced'); sys.exit(0)
'''


def task_reflection(_):
    t = harness.Task('reflection and rectangular coordinates')
    sun = loader.mod('Sun')
    coords = loader.mod('Coordinates')
    Angle = loader.mod('Angle').Angle
    trig.install_reduce_summary(Angle)
    E = loader.mod('Epoch')
    R0 = Num.real_var('R0')
    pre = trig.angle_pre('L', 0, 360) + trig.angle_pre('B', -1, 1) + trig.angle_pre('eps', 20, 27) + [z3.Real('v_L') < 360, R0.e > z3.RealVal('0.9'), R0.e < z3.RealVal('1.1'),
                                                                                                         z3.Real('s_B') < z3.RealVal('1/10000'), z3.Real('s_B') > z3.RealVal('-1/10000')]
    e = E.Epoch(Num.const(2451545.0)) if False else E.JDE2000
    og, oa, om = sun.Earth.geometric_heliocentric_position, sun.Earth.apparent_heliocentric_position, sun.mean_obliquity

    def fn():
        Lx, _ = trig.input_angle(None, 'L', 0, 360)
        Bx, _ = trig.input_angle(None, 'B', -1, 1)
        ex, _ = trig.input_angle(None, 'eps', 20, 27)
        sun.Earth.geometric_heliocentric_position = staticmethod(lambda *a, **k: (Angle(Lx), Angle(Bx), R0))
        sun.Earth.apparent_heliocentric_position = staticmethod(lambda *a, **k: (Angle(Lx), Angle(Bx), R0))
        sun.mean_obliquity = lambda *a, **k: Angle(ex)
        try:
            g = sun.Sun.geometric_geocentric_position(e)
            a = sun.Sun.apparent_geocentric_position(e)
            xyz = sun.Sun.rectangular_coordinates_mean_equinox(e)
        finally:
            sun.Earth.geometric_heliocentric_position, sun.Earth.apparent_heliocentric_position, sun.mean_obliquity = og, oa, om
        return (g[0]._deg, g[1]._deg, g[2], trig.cos_sin(g[0]._deg)), (a[0]._deg, a[1]._deg, a[2], trig.cos_sin(a[0]._deg)), xyz
    ctx, paths = core.explore(fn, pre, trig='atoms', check_div0=False, timeout_ms=20000, max_paths=300, max_seconds=600)
    t.absorb_ctx(ctx, paths)
    cL, sL, vB = z3.Real('c_L'), z3.Real('s_L'), z3.Real('v_B')
    sB = z3.Real('s_B')
    bd = 'Earth position arbitrary: L in [0, 360), |B| small, R in (0.9, 1.1); real arithmetic'
    inp = lambda mo: {'kind': 'reflect'}
    q = dict(timeout_ms=60000, retry=False)
    for i, p in enumerate(paths):
        tag = '@p%d' % i
        if p.kind != 'ok':
            t.ob('Sun wrappers total' + tag, 'sat' if p.kind == 'exc' else 'unwind', 0, bd)
            continue
        g, a, xyz = p.val
        t.reach += 3
        for nm, (lon, lat, r, (c, s)) in (('geometric', g), ('apparent', a)):
            le = core.lift(lon).re()
            t.decide(ctx, p, '%s Sun = Earth reflected: longitude + 180 (mod 360, in [0, 360)), latitude negated, same distance' % nm + tag,
                     z3.Or(c != -cL, s != -sL, core.lift(lat).re() != -vB, core.lift(r).re() != R0.e, le < 0, le >= 360), 'C08.reflect', inp, nm, bd, **q)
        x, y, z = [core.lift(v).re() for v in xyz]
        n2 = x * x + y * y + z * z
        t.decide(ctx, p, 'rectangular coordinates have norm = radius vector (to 1e-8 relative: the formula omits cos B)' + tag,
                 z3.Or(n2 > R0.e * R0.e * (1 + z3.RealVal('2/100000000')), n2 < R0.e * R0.e * (1 - z3.RealVal('2/100000000'))), 'C08.reflect', inp, 'norm', bd, **q)
    return t


def task_obliquity(_):
    t = harness.Task('obliquity')
    coords = loader.mod('Coordinates')
    Angle = loader.mod('Angle').Angle
    E = loader.mod('Epoch')
    # true = mean + nutation (both replaced by arbitrary angles)
    e0, de = Num.real_var('e0'), Num.real_var('de')
    om, on = coords.mean_obliquity, coords.nutation_obliquity

    def fn():
        coords.mean_obliquity = lambda *a, **k: Angle(e0)
        coords.nutation_obliquity = lambda *a, **k: Angle(de)
        try:
            return coords.true_obliquity(E.JDE2000)._deg
        finally:
            coords.mean_obliquity, coords.nutation_obliquity = om, on
    ctx, paths = core.explore(fn, [e0.e > 20, e0.e < 27, de.e > -1, de.e < 1], check_div0=False, timeout_ms=20000, max_paths=50)
    t.absorb_ctx(ctx, paths)
    for i, p in enumerate(paths):
        if p.kind != 'ok':
            t.ob('true_obliquity total@p%d' % i, 'sat', 0, '')
            continue
        t.reach += 1
        t.decide(ctx, p, 'true obliquity = mean obliquity + nutation in obliquity@p%d' % i, core.lift(p.val).re() != e0.e + de.e, 'C08.obl', lambda mo: {'kind': 'obliquity'},
                 'sum', 'arbitrary mean obliquity in (20, 27) and nutation in (-1, 1) degrees')
    # mean obliquity (degree-10 polynomial) within 3 arcsec of the IAU cubic for |T| <= 20 centuries
    T = Num.real_var('T')
    ep = E.Epoch()

    def fn2():
        ep._jde = T * 36525.0 + 2451545.0
        return coords.mean_obliquity(ep)._deg
    ctx, paths = core.explore(fn2, [T.e >= -20, T.e <= 20], check_div0=False, timeout_ms=20000, max_paths=50)
    t.absorb_ctx(ctx, paths)
    iau = (z3.RealVal('84381.448') - z3.RealVal('46.8150') * T.e - z3.RealVal('0.00059') * T.e * T.e + z3.RealVal('0.001813') * T.e * T.e * T.e) / 3600
    for i, p in enumerate(paths):
        if p.kind != 'ok':
            t.ob('mean_obliquity total@p%d' % i, 'sat', 0, '')
            continue
        v = core.lift(p.val).re()
        t.reach += 1
        t.decide(ctx, p, 'mean obliquity within 3 arcsec of the IAU cubic for |T| <= 20 centuries@p%d' % i, z3.Or((v - iau) * 3600 > 3, (v - iau) * 3600 < -3), 'C08.obl',
                 lambda mo: {'kind': 'obliquity', 'T': str(harness.meval(mo, T))}, 'IAU cubic', 'all real T in [-20, 20]', timeout_ms=300000, retry=False)
    return t


def dispatch(job):
    return {'refl': task_reflection, 'obl': task_obliquity}[job](0)


def main(tier):
    loader.install()
    chk = harness.Check(PID, tier)
    chk.replays = {'C08.reflect': REPLAY, 'C08.obl': REPLAY}
    chk.functions = ['Sun.geometric_geocentric_position', 'Sun.apparent_geocentric_position', 'Sun.rectangular_coordinates_mean_equinox', 'Coordinates.true_obliquity', 'Coordinates.mean_obliquity']
    chk.run(dispatch, ['refl', 'obl'], 'Sun/Earth frames and obliquity')
    chk.bounds = {'Earth position': 'arbitrary (L, B, R) with |sin B| <= 1e-4', 'mean obliquity': '|T| <= 20 centuries'}
    chk.stubs = ['Earth.geometric/apparent_heliocentric_position -> arbitrary (L, B, R); mean_obliquity -> arbitrary angle in (20, 27) degrees inside rectangular_coordinates_mean_equinox',
                 'true_obliquity: its two callees -> arbitrary angles']
    chk.outside = ['J2000 / B1950 / arbitrary-equinox frames vs the library\'s precession to 2 arcsec (numeric composition)', 'nutation within 3.5 / 1.5 arcsec of the main-term model (63 terms x symbolic T)',
                   'coarse vs VSOP solar longitude (values of the series)', 'date-argument forms (C02)']
    chk.assumptions = ['real arithmetic, trig atoms']
    return chk.finish()
