"""C13 -- planetary event finders: the selection skeleton (results in order, none skipped, within one period, range guard).

Real code executed symbolically: each Meeus chapter-36 finder of every planet (28 functions), with the query reduced to
its fractional year y (symbolic real), sin/cos boxed to [-1, 1] and Angle replaced by a pass-through inside the planet
module.  The returned instant is  a + k*b + corr(k, boxes);  corr is linear in the box variables with polynomial
coefficients in k: each coefficient is bounded by a univariate solver query over the whole range of k, and the skeleton
clauses follow from those bounds.
"""
import ast
import os
import z3

from symx import core, loader, harness
from symx.core import Num, Fr

PID = 'C13'
PLANETS = ['Mercury', 'Venus', 'Mars', 'Jupiter', 'Saturn', 'Uranus', 'Neptune']
# the 28 finders of Meeus chapter 36 the property speaks about: each must be found in the shape the harness can encode
EXPECTED = ([('Mercury', f) for f in ('inferior_conjunction', 'superior_conjunction', 'western_elongation', 'eastern_elongation', 'station_longitude_1', 'station_longitude_2')]
            + [('Venus', f) for f in ('inferior_conjunction', 'superior_conjunction', 'western_elongation', 'eastern_elongation', 'station_longitude_1', 'station_longitude_2')]
            + [(p, f) for p in ('Mars', 'Jupiter', 'Saturn') for f in ('conjunction', 'opposition', 'station_longitude_1', 'station_longitude_2')]
            + [(p, f) for p in ('Uranus', 'Neptune') for f in ('conjunction', 'opposition')])

REPLAY = r'''
import importlib
from pymeeus.Epoch import Epoch
mod = importlib.import_module('pymeeus.' + INPUTS['planet'])
fn = getattr(getattr(mod, INPUTS['planet']), INPUTS['func'])
b = INPUTS['b']
bad = None
def jde_of(r):
    return (r[0] if isinstance(r, tuple) else r).jde()
if INPUTS['kind'] == 'range':
    for y, should in ((-2001, True), (4001, True), (-1999, False), (3999, False)):
        try:
            fn(Epoch(y, 6, 1.0)); raised = False
        except ValueError:
            raised = True
        if raised != should:
            bad = 'query year %d: ValueError raised=%r' % (y, raised)
else:
    # scan the whole validity range in steps of b/20: results never move backwards, consecutive distinct results are one period
    # apart within the variation bound, each result within one period of the query
    S = INPUTS.get('S', b / 2)
    j0, j1 = Epoch(-1999, 1, 1.0).jde(), Epoch(3999, 12, 1.0).jde()
    prev = None
    j = j0
    n = 0
    while j < j1 and n < 400000:
        r = jde_of(fn(Epoch(j)))
        if abs(r - j) > b * 1.02 + 1:
            bad = 'query %r -> result %r: more than one period away' % (j, r); break
        if prev is not None:
            if r < prev - 1e-6:
                bad = 'result moved backwards: %r after %r (query %r)' % (r, prev, j); break
            if r > prev + 1e-6 and not (b - 2 * S - 1 <= r - prev <= b + 2 * S + 1):
                bad = 'consecutive results %r apart (period %r, variation bound %r) at query %r' % (r - prev, b, 2 * S, j); break
        prev = r
        j += b / 20.0
        n += 1
if bad:
    print('REPRODUCED %s: %s.%s: %s' % (SITE, INPUTS['planet'], INPUTS['func'], bad)); sys.exit(1)
print('not reproduced'); sys.exit(0)
'''


def finders():
    out = []
    for pl in PLANETS:
        src = open(os.path.join(loader.ROOT, 'pymeeus', pl + '.py'), encoding='utf-8').read()
        tree = ast.parse(src)
        for n in tree.body:
            if isinstance(n, ast.ClassDef):
                for f in n.body:
                    if isinstance(f, ast.FunctionDef) and any(isinstance(st, ast.Assign) and isinstance(st.targets[0], ast.Name) and st.targets[0].id == 'jde0' for st in ast.walk(f)) and 'corr' in ast.unparse(f):
                        consts = {}
                        for st in ast.walk(f):
                            if isinstance(st, ast.Assign) and len(st.targets) == 1 and isinstance(st.targets[0], ast.Name) and st.targets[0].id in ('a', 'b'):
                                try:
                                    consts.setdefault(st.targets[0].id, float(ast.literal_eval(st.value)))
                                except Exception:
                                    pass
                        if 'a' in consts and 'b' in consts:
                            out.append((pl, f.name, consts['a'], consts['b']))
    return out


class PassAngle(object):
    """stand-in for Angle inside the planet module: under the box abstraction the argument of sin/cos is irrelevant"""
    def __init__(self, v=0.0, *a, **k):
        self.v = v

    def to_positive(self):
        return self

    def rad(self):
        return self.v * Num.const(0.017453292519943295) if isinstance(self.v, Num) else self.v

    def __call__(self):
        return self.v


CAL_SLACK = 19      # days: |JDE of the query - (365.2425*year + 1721060)|, decided by task_slack


def task_slack(_):
    """the finders place the query at 365.2425*year + 1721060; its real JDE is J0(Y) + doy with year = Y + doy/days(Y)"""
    t = harness.Task('calendar slack')
    Yc, doy = z3.Int('Yc'), z3.Real('doy')
    greg = Yc >= 1583
    leap = z3.If(greg, z3.And(Yc % 4 == 0, z3.Or(Yc % 100 != 0, Yc % 400 == 0)), Yc % 4 == 0)
    J0 = z3.If(greg, z3.RealVal('1721424.5') + z3.ToReal(365 * (Yc - 1) + (Yc - 1) / 4 - (Yc - 1) / 100 + (Yc - 1) / 400),
               z3.RealVal('1721422.5') + z3.ToReal(365 * (Yc - 1) + (Yc - 1) / 4))
    year = z3.ToReal(Yc) + z3.If(leap, doy / 366, doy / 365)
    dlt = J0 + doy - (z3.RealVal('365.2425') * year + z3.RealVal('1721060'))
    s = z3.Solver()
    s.set('timeout', 120000)
    s.add(Yc >= -2000, Yc <= 4000, Yc != 1582, doy >= 1, doy < z3.If(leap, 367, 366), z3.Or(dlt > CAL_SLACK, dlt < -CAL_SLACK))
    r = str(s.check())
    t.ob('|JDE of a query - (365.2425*year + 1721060)| <= %d days for every calendar date (calendar written in the harness)' % CAL_SLACK, r, 0,
         'calendar years -2000..4000 except 1582, every day of year (real)')
    t.reach += 1
    s2 = z3.Solver()
    s2.add(Yc >= -2000, Yc <= 4000, Yc != 1582, doy >= 1, doy < z3.If(leap, 367, 366), z3.Or(dlt > CAL_SLACK - 2, dlt < -(CAL_SLACK - 2)))
    t.ob('reachability twin: the slack bound is not vacuous (a deviation above %d days exists)' % (CAL_SLACK - 2), 'ok' if s2.check() == z3.sat else 'unknown', 0, '')
    return t


def task_finder(arg):
    pl, fname, a, b = arg
    t = harness.Task('%s.%s' % (pl, fname))
    mod = loader.mod(pl)
    E = loader.mod('Epoch')
    Epoch = E.Epoch
    cls = getattr(mod, pl)
    fn = getattr(cls, fname)
    y = Num.real_var('y')
    pre = [y.e >= -3000, y.e <= 5000]
    orig_set, orig_angle = Epoch.set, mod.Angle

    def set_summary(self, *args, **kw):
        if len(args) == 1 and not kw and core.s_isinstance(args[0], (int, float)):
            self._jde = args[0]
            return
        return orig_set(self, *args, **kw)
    q = Epoch()

    def run():
        q.year = lambda: y
        r = fn(q)
        ep = r[0] if isinstance(r, tuple) else r
        return ep._jde, list(core.CUR.memo.get('rounds', [])), [v for k_, v in core.CUR.memo.items() if isinstance(k_, tuple) and k_[0] in ('sin', 'cos')]
    Epoch.set = set_summary
    mod.Angle = PassAngle
    try:
        ctx, paths = core.explore(run, pre, trig='box', check_div0=False, timeout_ms=20000, max_paths=50, max_seconds=300)
    finally:
        Epoch.set, mod.Angle = orig_set, orig_angle
    t.absorb_ctx(ctx, paths)
    inp_r = lambda mo: {'kind': 'range', 'planet': pl, 'func': fname, 'b': b}
    bd = '%s.%s: every query year (symbolic real), sin/cos boxed' % (pl, fname)
    okp = [p for p in paths if p.kind == 'ok']
    for i, p in enumerate(paths):
        tag = '@%s.%s.p%d' % (pl, fname, i)
        t.reach += 1
        if p.kind == 'exc':
            if isinstance(p.exc, ValueError):
                t.decide(ctx, p, 'ValueError only for query years outside -2000..4000' + tag, z3.And(y.e >= -2000, y.e <= 4000), 'C13.range', inp_r, 'range guard', bd)
            else:
                t.ob('finder total' + tag, 'sat', 0, bd)
                t.cand('C13.range', inp_r(None), 'raised %r' % (p.exc,))
        elif p.kind == 'ok':
            t.decide(ctx, p, 'queries outside -2000..4000 are refused' + tag, z3.Or(y.e < -2000, y.e > 4000), 'C13.range', inp_r, 'range guard', bd)
    if len(okp) != 1:
        t.ob('one accepting path' + '@%s.%s' % (pl, fname), 'sat' if okp else 'unknown', 0, bd)
        return t
    p = okp[0]
    R, rounds, boxes = p.val
    R = core.lift(R).re()
    rounds = rounds[:1] if rounds else rounds
    if len(rounds) != 1:
        t.ob('exactly one rounded period count k' + '@%s.%s' % (pl, fname), 'unknown', 0, bd)
        return t
    kexpr, xarg = rounds[0]
    K = z3.Int('K')
    Kr = z3.ToReal(K)
    Rk = z3.substitute(R, (z3.ToReal(kexpr), Kr)) if False else None
    # the result as a function of the integer k: replace the rounded term by a free integer
    Rk = z3.substitute(R, (kexpr, K))
    zero = [(bx, z3.RealVal(0)) for bx in boxes]
    p0 = z3.simplify(z3.substitute(Rk, *zero)) if boxes else Rk
    coeffs = []
    for bx in boxes:
        one = [(b2, z3.RealVal(1) if b2 is bx else z3.RealVal(0)) for b2 in boxes]
        coeffs.append(z3.simplify(z3.substitute(Rk, *one) - p0))
    av, bv = z3.RealVal(repr(a)), z3.RealVal(repr(b))
    inp = lambda mo: {'kind': 'skeleton', 'planet': pl, 'func': fname, 'b': b}
    q_ = dict(timeout_ms=60000, retry=False, use_pc=False)
    # (1) k is the period count nearest to the query:  |x - k| <= 1/2  with  x = (365.2425 y + 1721060 - a)/b
    # independent of how the code computes it: the count must be the integer nearest to the query's position in periods
    xq = (z3.RealVal('365.2425') * y.e + z3.RealVal('1721060') - av) / bv
    t.reach += 1
    t.decide(ctx, p, 'k = nearest period count to (365.2425 y + 1721060 - a)/b' + '@%s.%s' % (pl, fname),
             z3.Or(z3.ToReal(kexpr) - xq > z3.RealVal('1/2'), xq - z3.ToReal(kexpr) > z3.RealVal('1/2')),
             'C13.skel', inp, 'period count', bd, timeout_ms=60000, retry=False)
    # (2) the result is  a + k b + p0'(k) + sum box_i p_i(k)  (linear in the boxes)
    lin = p0 + sum((bx * c for bx, c in zip(boxes, coeffs)), z3.RealVal(0))
    s = z3.Solver()
    s.set('timeout', 60000)
    s.add(Rk != lin)
    r_lin = str(s.check())
    t.ob('result linear in the boxed sines/cosines' + '@%s.%s' % (pl, fname), r_lin, 0, bd)
    t.reach += 1
    if r_lin != 'unsat':
        return t
    # (3) amplitude bounds over the whole range of k (k real in [kmin-1, kmax+1] is a superset)
    kmin = int((365.2425 * -2000 + 1721060.0 - a) / b) - 2
    kmax = int((365.2425 * 4000 + 1721060.0 - a) / b) + 2

    def sup_abs(expr):
        """guess a bound from the end points and the middle, widen until the solver proves it over the whole range"""
        vals = []
        for kv in (kmin, (kmin + kmax) // 2, kmax, 0):
            v = z3.simplify(z3.substitute(expr, (K, z3.IntVal(kv))))
            try:
                vals.append(abs(float(v.as_fraction())))
            except Exception:
                vals.append(0.0)
        M = max(vals) * 1.05 + 1e-6
        for _ in range(12):
            s2 = z3.Solver()
            s2.set('timeout', 30000)
            kr = z3.Real('kr')
            e2 = z3.substitute(expr, (z3.ToReal(K), kr))
            s2.add(kr >= kmin, kr <= kmax, z3.Or(e2 > z3.RealVal(repr(M)), e2 < -z3.RealVal(repr(M))))
            r2 = s2.check()
            if r2 == z3.unsat:
                return M
            M *= 1.5
        return None
    base = z3.simplify(p0 - av - Kr * bv)          # the non-periodic part of the correction
    M0 = sup_abs(base)
    Ms = [sup_abs(c) for c in coeffs]
    ok = M0 is not None and all(m is not None for m in Ms)
    t.ob('every amplitude of the periodic correction bounded over the whole range of k (univariate queries)' + '@%s.%s' % (pl, fname),
         'unsat' if ok else 'unknown', 0, 'k in [%d, %d]; %d amplitudes' % (kmin, kmax, len(Ms)), n=len(Ms) + 1)
    t.reach += len(Ms) + 1
    if not ok:
        return t
    S = sum(Ms)
    # drift of the non-periodic part between consecutive k
    d0 = z3.simplify(z3.substitute(base, (K, K + 1)) - base)
    D0 = sup_abs(d0)
    t.samples.append({'finder': '%s.%s' % (pl, fname), 'a': a, 'b': b, 'sum_of_amplitudes_days': round(S, 4), 'constant_part_bound_days': round(M0, 4),
                      'k_range': [kmin, kmax]})
    mono = D0 is not None and b - D0 - 2 * S > 0
    within = b / 2 + M0 + S + CAL_SLACK <= b
    t.ob('results strictly increase with k: b - drift - 2*sum|amplitudes| > 0 (never backwards, none repeated; consecutive results b +- that variation: none skipped)'
         + '@%s.%s' % (pl, fname), 'unsat' if mono else 'sat', 0, 'b = %r, sum of amplitudes %.4f, drift %.2g' % (b, S, D0 or -1))
    t.ob('result within one period of the query: b/2 + |constant part| + sum|amplitudes| + calendar slack <= b' + '@%s.%s' % (pl, fname), 'unsat' if within else 'sat', 0,
         'b = %r, constant part %.4f, amplitudes %.4f, calendar slack %d d' % (b, M0, S, CAL_SLACK))
    t.reach += 2
    if not mono or not within:
        t.cand('C13.skel', {'kind': 'skeleton', 'planet': pl, 'func': fname, 'b': b, 'S': S + M0}, 'bounds do not give the skeleton clause')
    return t


def main(tier):
    loader.install()
    chk = harness.Check(PID, tier)
    chk.replays = {'C13.range': REPLAY, 'C13.skel': REPLAY}
    fs = finders()
    chk.functions = ['%s.%s' % (pl, f) for pl, f, a, b in fs]
    chk.run(task_finder, fs, 'selection skeleton of %d finders' % len(fs))
    chk.run(task_slack, [0], 'calendar slack')
    missing = [e for e in EXPECTED if e not in [(pl, f) for pl, f, a, b in fs]]
    if missing:
        tm = harness.Task('enumeration')
        for e in missing:
            tm.ob('finder %s.%s found in the encodable shape (a, b constants, jde0, corr)' % e, 'unknown', 0.0, 'source shape')
        chk.add_tasks([tm])
    chk.bounds = {'query': 'every fractional year (symbolic real); accepted range -2000..4000', 'finders': len(fs)}
    chk.stubs = ['epoch.year() -> a symbolic real; its relation to the JDE: within 19 days of 365.2425*year + 1721060 (solver-decided on the calendar written in the harness; the helper itself is C16)', 'sin/cos -> boxes in [-1, 1] (same argument, same variable)',
                 'Angle inside the planet module -> pass-through (arguments of boxed sines are irrelevant)', 'Epoch(number) -> stores the JDE (C02)']
    chk.outside = ['that the returned instant IS an event of the VSOP87 positions (first sentence of the statement): values of the series, not encodable',
                   'perihelion_aphelion and passage_nodes (three series evaluations + interpolation)', 'the reported elongation angle',
                   'a wrong periodic coefficient that keeps the amplitude bounds is not detected']
    chk.assumptions = ['real arithmetic; the box abstraction over-approximates the code: bounds proved under it hold for the real code']
    return chk.finish()
