"""C16 -- weekday, day of year, fractional year, sidereal time follow the JDE.

Real code executed symbolically (mode Q; sidereal part in R/box): Epoch.dow, get_doy, doy, doy2date,
year, leap, is_leap, mean_sidereal_time, apparent_sidereal_time (+ constructor / get_date).
"""
import time
import z3

from symx import core, loader, harness, cuts
from symx.core import Num, Fr
from props import spec

PID = 'C16'
YMIN, YMAX = -4712, 6000
MS = 86400000


def jdn_jan1(y):
    return spec.z_jdn_civil(y, 1, 1)


def year_len(y):
    return z3.If(spec.z_is_leap_civil(y), 366, 365)


REPLAY = spec.SPEC_SRC + r'''
from pymeeus.Epoch import Epoch
y, m, d = INPUTS['y'], INPUTS['m'], INPUTS['d']
f = F(INPUTS.get('f', 0))
bad = []
def doy_spec(y, m, d):
    return jdn_civil(y, m, d) - jdn_civil(y, 1, 1) + 1
if SITE == 'C16.dow':
    e = Epoch(y, m, d + f)
    want = (jdn_civil(y, m, d) + 1) % 7
    if e.dow() != want:
        bad.append('dow()=%r, floor(JDE+1.5) mod 7 = %r (jde=%r)' % (e.dow(), want, e.jde()))
    import math
    if math.floor(e.jde() + 1.5) % 7 != want:
        bad.append('spec mismatch')  # sanity of the replay itself
elif SITE in ('C16.doy', 'C16.doy2date'):
    try:
        got = Epoch.get_doy(y, m, d + f)
    except Exception as ex:
        got = ex
    want = doy_spec(y, m, d) + f
    if isinstance(got, Exception) or abs(got - want) > 1e-9:
        bad.append('get_doy(%r,%r,%r) = %r, JDE difference to 1 January + 1 = %r' % (y, m, d + f, got, want))
    else:
        try:
            back = Epoch.doy2date(y, got)
        except Exception as ex:
            back = ex
        if isinstance(back, Exception) or back[0] != y or back[1] != m or abs(back[2] - (d + f)) > 1e-9:
            bad.append('doy2date(%r, %r) = %r, expected %r' % (y, got, back, (y, m, d + f)))
elif SITE == 'C16.doy2date_fwd':
    n = INPUTS['n']
    try:
        got = Epoch.doy2date(y, n)
    except Exception as ex:
        got = ex
    ok = False
    if not isinstance(got, Exception):
        yy, mm, dd = got
        ok = (yy == y and 1 <= mm <= 12 and dd == int(dd) and 1 <= dd <= month_len(y, int(mm)) and doy_spec(y, int(mm), int(dd)) == n)
        if ok:
            try:
                ok = Epoch.get_doy(yy, mm, dd) == n
            except Exception as ex:
                ok = False
    if not ok:
        bad.append('doy2date(%r, %r) = %r' % (y, n, got))
elif SITE == 'C16.year':
    e = Epoch(y, m, d + f)
    try:
        v = e.year()
    except Exception as ex:
        v = ex
    L = 366 if is_leap_civil(y) else 365
    want = y + (doy_spec(y, m, d) - 1 + f) / L
    if isinstance(v, Exception) or abs(v - want) > 1e-9 or int(math.floor(v)) != y:
        bad.append('year() = %r, expected %r' % (v, want))
if bad:
    print('REPRODUCED %s: %s' % (SITE, '; '.join(bad))); sys.exit(1)
print('not reproduced'); sys.exit(0)
'''


def _vars(lo, hi, frac=True):
    y = Num.int_var('y', lo, hi)
    d = Num.int_var('d', 1, 31)
    fn = Num.scaled_var('fms', MS, 0, MS - 1) if frac else None
    pre = [y.n >= lo, y.n <= hi, d.n >= 1, d.n <= 31]
    if frac:
        pre += [fn.n >= 0, fn.n <= MS - 1]
    return y, d, fn, pre


def _inp(y, m, d, fn):
    def inp(model):
        r = {'y': harness.meval(model, y), 'm': m, 'd': harness.meval(model, d)}
        if fn is not None:
            r['f'] = str(harness.meval(model, fn))
        return r
    return inp


def task_bridge(arg):
    """JDE of a civil date with a time of day = independent day count - 1/2 + fraction (real constructor)"""
    m, lo, hi = arg
    t = harness.Task('jde(date+fraction) month=%d' % m)
    Epoch = loader.mod('Epoch').Epoch
    y, d, fn, pre = _vars(lo, hi)
    pre.append(spec.z_valid_civil(y.n, m, d.n))

    def fn_():
        return Epoch(y, m, d + fn).jde()
    ctx, paths = core.explore(fn_, pre, track_sites=True)
    t.absorb_ctx(ctx, paths)
    inp = _inp(y, m, d, fn)
    bound = 'year %d..%d month %d every day, time of day in ms' % (lo, hi, m)
    for i, p in enumerate(paths):
        tag = '@m%d.p%d' % (m, i)
        if p.kind != 'ok':
            r, mo, _ = core.check(ctx, p, z3.BoolVal(True))
            t.ob('constructor total on civil dates' + tag, 'sat', 0, bound)
            t.cand('C16.dow', inp(mo) if mo else {'y': 2000, 'm': m, 'd': 1}, 'Epoch raised %r' % (p.exc,))
            continue
        t.reach += 1
        want = Num('q', spec.z_jdn_civil(y.n, m, d.n), 1, ty=int) - Num.const(Fr(1, 2)) + fn
        t.decide(ctx, p, 'JDE(date, time of day) = independent day count - 1/2 + fraction' + tag,
                 (core.lift(p.val) != want).e, 'C16.dow', inp, 'jde', bound)
        if i == 0:
            r, mo, _ = core.check(ctx, p, z3.BoolVal(True))
            if mo is not None:
                t.samples.append({'path': 'constructor month %d path 0' % m, 'reach_witness': inp(mo)})
    t.sites = cuts.collect(ctx, paths)
    return t


def task_dow(_):
    """dow() depends on the stored JDE only: run it on JDE = J - 1/2 + fraction for an arbitrary day number J"""
    t = harness.Task('dow')
    Epoch = loader.mod('Epoch').Epoch
    J = Num.int_var('J', 0, 5400000)
    fn = Num.scaled_var('fms', MS, 0, MS - 1)
    pre = [J.n >= 0, J.n <= 5400000, fn.n >= 0, fn.n <= MS - 1]
    e = Epoch()

    def fn_():
        e._jde = J - Num.const(Fr(1, 2)) + fn
        return e.dow(), e.dow(as_string=True)
    ctx, paths = core.explore(fn_, pre, track_sites=True)
    t.absorb_ctx(ctx, paths)
    names = ['Sunday', 'Monday', 'Tuesday', 'Wednesday', 'Thursday', 'Friday', 'Saturday']

    def inp(model):
        return {'J': harness.meval(model, J), 'f': str(harness.meval(model, fn))}
    bound = 'every day number J in [0, 5.4e6] (JDE = J - 1/2 + time of day in ms)'
    for i, p in enumerate(paths):
        tag = '@p%d' % i
        if p.kind != 'ok':
            r, mo, _ = core.check(ctx, p, z3.BoolVal(True))
            t.ob('dow total' + tag, 'sat', 0, bound)
            t.cand('C16.dowJ', inp(mo) if mo else {'J': 2451545, 'f': '0'}, 'dow raised %r' % (p.exc,))
            continue
        t.reach += 2
        w = core.lift(p.val[0])
        t.decide(ctx, p, 'dow = floor(JDE+1.5) mod 7 = (J+1) mod 7, constant over the civil day' + tag,
                 w.ie() != (J.n + 1) % 7, 'C16.dowJ', inp, 'weekday', bound)
        nm = p.val[1]
        if nm in names:
            t.decide(ctx, p, 'weekday name matches the number' + tag, w.ie() != names.index(nm), 'C16.dowJ', inp, 'weekday name', bound)
        else:
            t.ob('weekday name matches the number' + tag, 'sat', 0, bound)
            t.cand('C16.dowJ', {'J': 2451545, 'f': '0'}, 'name %r' % (nm,))
    t.sites = cuts.collect(ctx, paths)
    return t


def task_getdate_frac(_):
    """get_date() of JDE = J - 1/2 + f is get_date() of J - 1/2 with the fraction added to the day"""
    t = harness.Task('get_date fraction')
    Epoch = loader.mod('Epoch').Epoch
    J = Num.int_var('J', 0, 5400000)
    fn = Num.scaled_var('fms', MS, 0, MS - 1)
    pre = [J.n >= 0, J.n <= 5400000, fn.n >= 0, fn.n <= MS - 1]
    e0, e1 = Epoch(), Epoch()

    def fn_():
        e0._jde = J - Num.const(Fr(1, 2))
        e1._jde = J - Num.const(Fr(1, 2)) + fn
        return e0.get_date(), e1.get_date()
    ctx, paths = core.explore(fn_, pre, track_sites=True)
    t.absorb_ctx(ctx, paths)

    def inp(model):
        return {'J': harness.meval(model, J), 'f': str(harness.meval(model, fn))}
    bound = 'every day number J in [0, 5.4e6], time of day in ms'
    for i, p in enumerate(paths):
        tag = '@p%d' % i
        if p.kind != 'ok':
            t.ob('get_date total' + tag, 'sat', 0, bound)
            t.cand('C16.getdate', {'J': 2451545, 'f': '1/2'}, 'raised %r' % (p.exc,))
            continue
        (y0, m0, d0), (y1, m1, d1) = p.val
        t.reach += 1
        bad = z3.Or((core.lift(y0) != y1).e, (core.lift(m0) != m1).e, (core.lift(d1) != (core.lift(d0) + fn)).e)
        t.decide(ctx, p, 'get_date(J - 1/2 + f) = get_date(J - 1/2) + (0, 0, f)' + tag, bad, 'C16.getdate', inp, 'fraction of day', bound)
    t.sites = cuts.collect(ctx, paths)
    return t


def task_doy(arg):
    m, lo, hi = arg
    t = harness.Task('doy month=%d years %d..%d' % (m, lo, hi))
    Epoch = loader.mod('Epoch').Epoch
    y, d, fn, pre = _vars(lo, hi)
    pre.append(spec.z_valid_civil(y.n, m, d.n))
    pre.append(y.n != 1582)

    def fn_():
        return Epoch.get_doy(y, m, d + fn)
    ctx, paths = core.explore(fn_, pre, track_sites=True)
    t.absorb_ctx(ctx, paths)
    inp = _inp(y, m, d, fn)
    bound = 'year %d..%d except 1582, month %d, every day the calendar has, time of day in ms' % (lo, hi, m)
    want = spec.z_jdn_civil(y.n, m, d.n) - jdn_jan1(y.n) + 1
    for i, p in enumerate(paths):
        tag = '@m%d.p%d' % (m, i)
        if p.kind != 'ok':
            r, mo, _ = core.check(ctx, p, z3.BoolVal(True), timeout_ms=120000)
            t.ob('get_doy total on civil dates' + tag, 'sat', 0, bound)
            t.cand('C16.doy', inp(mo) if mo else {'y': 100, 'm': m, 'd': 1}, 'raised %r' % (p.exc,))
            continue
        doy = core.lift(p.val)
        t.reach += 1
        ex = Num('q', want, 1, ty=int) + fn
        t.decide(ctx, p, 'day of year = JDE difference to 1 January + 1' + tag, (doy != ex).e, 'C16.doy', inp,
                 'get_doy differs from the JDE difference', bound)
        if m == 12:
            t.reach += 1
            t.decide(ctx, p, '31 December is day 365/366 by the leap rule in force' + tag,
                     z3.And(d.n == 31, doy.floor().ie() != year_len(y.n)), 'C16.doy', inp, 'day of year on 31 Dec', bound)
        if i == 0:
            r, mo, _ = core.check(ctx, p, z3.BoolVal(True))
            if mo is not None:
                t.samples.append({'path': 'get_doy month %d path 0' % m, 'reach_witness': inp(mo)})
    t.sites = cuts.collect(ctx, paths)
    return t


def task_doy2date(arg):
    """doy2date(y, n) is the civil date whose day count in the year is n (so it inverts get_doy, whose value is
    that count by task_doy), and a fractional part is carried over unchanged"""
    lo, hi = arg
    t = harness.Task('doy2date years %d..%d' % (lo, hi))
    Epoch = loader.mod('Epoch').Epoch
    y = Num.int_var('y', lo, hi)
    n = Num.int_var('n', 1, 366)
    fn = Num.scaled_var('fms', MS, 0, MS - 1)
    pre = [y.n >= lo, y.n <= hi, y.n != 1582, n.n >= 1, n.n <= year_len(y.n), fn.n >= 0, fn.n <= MS - 1]

    def fn_():
        return Epoch.doy2date(y, n), Epoch.doy2date(y, n + fn)
    ctx, paths = core.explore(fn_, pre, max_paths=4000)
    t.absorb_ctx(ctx, paths)

    def inp(model):
        return {'y': harness.meval(model, y), 'n': harness.meval(model, n), 'm': 0, 'd': 0, 'f': str(harness.meval(model, fn))}
    bound = 'year %d..%d except 1582, day of year 1..365/366, fraction in ms' % (lo, hi)
    for i, p in enumerate(paths):
        tag = '@p%d' % i
        if p.kind != 'ok':
            r, mo, _ = core.check(ctx, p, z3.BoolVal(True), timeout_ms=120000)
            t.ob('doy2date total' + tag, 'sat', 0, bound)
            t.cand('C16.doy2date_fwd', inp(mo) if mo else {'y': 100, 'n': 60, 'm': 0, 'd': 0, 'f': '0'}, 'raised %r' % (p.exc,))
            continue
        (yy, mm, dd), (y2, m2, d2) = p.val
        mm_, dd_ = core.lift(mm), core.lift(dd)
        t.reach += 2
        mc = mm_.cval()
        msym = int(mc) if mc is not None else mm_.ie()
        di = dd_.floor().ie()
        valid = spec.z_valid_civil(y.n, msym, di)
        cnt = spec.z_jdn_civil(y.n, msym, di) - jdn_jan1(y.n) + 1
        bad = z3.Or((core.lift(yy) != y).e, z3.Not(valid), cnt != n.n, (dd_ != dd_.floor()).e)
        t.decide(ctx, p, 'doy2date gives the civil date with that day count' + tag, bad,
                 'C16.doy2date_fwd', inp, 'doy2date', bound)
        bad2 = z3.Or((core.lift(y2) != yy).e, (core.lift(m2) != mm).e, (core.lift(d2) != (dd_ + fn)).e)
        t.decide(ctx, p, 'doy2date carries the fraction of the day over' + tag, bad2, 'C16.doy2date_fwd', inp, 'fraction', bound)
    return t


def task_year(arg):
    """year() with get_date() replaced by its verified summary (date -> JDE -> date identity: C01 for the
    day, task_bridge/task_getdate_frac for the fraction): year() = y + (day count - 1 + f)/L"""
    m, lo, hi = arg
    t = harness.Task('year() month=%d' % m)
    Epoch = loader.mod('Epoch').Epoch
    y, d, fn, pre = _vars(lo, hi)
    pre.append(spec.z_valid_civil(y.n, m, d.n))
    pre.append(y.n != 1582)
    e = Epoch()

    def fn_():
        e.get_date = lambda **kw: (y, m, d + fn)
        return e.year()
    ctx, paths = core.explore(fn_, pre, max_paths=4000)
    t.absorb_ctx(ctx, paths)
    inp = _inp(y, m, d, fn)
    bound = 'year %d..%d except 1582, month %d, time of day in ms' % (lo, hi, m)
    for i, p in enumerate(paths):
        tag = '@m%d.p%d' % (m, i)
        if p.kind != 'ok':
            r, mo, _ = core.check(ctx, p, z3.BoolVal(True), timeout_ms=120000)
            t.ob('year() total' + tag, 'sat', 0, bound)
            t.cand('C16.year', inp(mo) if mo else {'y': 100, 'm': m, 'd': 1, 'f': '0'}, 'raised %r' % (p.exc,))
            continue
        t.reach += 1
        v = core.lift(p.val)
        L = year_len(y.n)
        num = (spec.z_jdn_civil(y.n, m, d.n) - jdn_jan1(y.n)) * MS + fn.n        # elapsed ms in the year
        if v.k == 'q':
            bad = v.n * MS * L != (y.n * L * MS + num) * v.d
        else:
            bad = v.e * z3.ToReal(L) * MS != z3.ToReal(y.n * L * MS + num)
        t.decide(ctx, p, 'year() = y + (JDE - JDE(1 Jan))/L: strictly increasing in JDE, integer part = calendar year' + tag,
                 bad, 'C16.year', inp, 'year()', bound, timeout_ms=60000)
    return t


def task_spec(marg):
    t = harness.Task('spec %s' % (marg,))
    y, d = z3.Ints('y d')
    from symx.models import dt
    yy = Num.int_var('y')
    dd = Num.int_var('d')
    for m in ([marg] if marg else []):
        pre = [y >= 1583, y <= YMAX, spec.z_valid_civil(y, m, d)]
        ctx, paths = core.explore(lambda: (dt.date(yy, m, dd).toordinal(), dt.date(yy, m, dd).weekday()), pre)
        for i, p in enumerate(paths):
            if p.kind != 'ok':
                t.ob('spec: datetime model total (month %d)' % m, 'sat', 0, '')
                continue
            t0 = time.time()
            # python weekday(): Monday = 0  ->  Sunday-based index = (weekday + 1) mod 7
            # day number - proleptic Gregorian ordinal is the constant 1721425 (and 1721426 = 7*245918), and
            # python's weekday() is (ordinal + 6) mod 7 with Monday = 0: hence (JDN+1) mod 7 = (weekday+1) mod 7
            od, wd = core.lift(p.val[0]).n, core.lift(p.val[1]).n
            assert 1721426 % 7 == 0
            r, mo, dt_ = core.check(ctx, p, z3.Or(spec.z_jdn(y, m, d, True) - od != 1721425, wd != (od + 6) % 7), timeout_ms=240000)
            t.ob('spec: floor(JDE+1.5) mod 7 = proleptic Gregorian weekday (month %d)@p%d' % (m, i), r, dt_, 'year 1583..%d' % YMAX)
            t.reach += 1
    if marg:
        return t
    s = z3.Solver()
    s.add(y >= YMIN, y <= YMAX, y != 1582, jdn_jan1(y + 1) - jdn_jan1(y) != year_len(y))
    t0 = time.time()
    t.ob('spec: civil year length = 365/366 by the leap rule in force', str(s.check()), time.time() - t0, 'year %d..%d except 1582' % (YMIN, YMAX))
    t.reach += 1
    dtc = __import__('symx.models.dtcheck', fromlist=['x'])
    t.ob('datetime model: day count before a year grows by 365/366 per year (hint axioms of fromordinal)', dtc.lemmas(), 0, 'years -10000..20000')
    n, bad = dtc.validate()
    t.ob('datetime model agrees with the real datetime module on boundary dates', 'unsat' if not bad else 'sat', 0, '%d comparisons' % n, n=n)
    if bad:
        t.error = 'datetime model disagrees with datetime: %r' % (bad[:5],)
    return t


def task_sidereal(_):
    """mean_sidereal_time in [0,1), linear rate within a day, apparent - mean = dpsi*cos(eps)/15 s"""
    t = harness.Task('sidereal')
    Epoch = loader.mod('Epoch').Epoch
    n = Num.int_var('n', 0, 5400000)
    fr = Num.real_var('fr')
    pre = [n.n >= 0, n.n <= 5400000, fr.e >= 0, fr.e < 1]
    e = Epoch()

    def fn_():
        e._jde = n + fr            # any JDE in [0, 5.4e6] : integer part n, fraction fr
        return e.mean_sidereal_time()
    ctx, paths = core.explore(fn_, pre, check_div0=False, opaque_mul=True)
    t.absorb_ctx(ctx, paths)
    bound = 'all real JDE in [0, 5.4e6] (integer part symbolic Int, fraction symbolic Real); real arithmetic'
    for i, p in enumerate(paths):
        tag = '@p%d' % i
        if p.kind != 'ok':
            t.ob('mean_sidereal_time total' + tag, 'sat', 0, bound)
            t.cand('C16.sidereal', {'n': 2451545, 'fr': '1/2'}, 'raised %r' % (p.exc,))
            continue
        v = core.lift(p.val)
        t.reach += 2
        t.decide(ctx, p, 'mean sidereal time in [0,1)' + tag, z3.Or(v.re() < 0, v.re() >= 1), 'C16.sidereal',
                 lambda mo: {'n': harness.meval(mo, n), 'fr': str(harness.meval(mo, fr))}, 'range', bound)
    # rate: two instants of the same UT day, for concrete day numbers (the day number only selects theta0)
    fr2 = Num.real_var('fr2')
    import random
    rnd = random.Random(int(__import__('os').environ.get('VERIF_SEED', '0') or 0))
    days = [0, 1, 2299160, 2451544, 2451545, 5399999] + [rnd.randrange(0, 5400000) for _ in range(6)]
    e2 = Epoch()
    for nd in days:
        pre2 = [fr.e >= 0, fr.e < 1, fr2.e >= 0, fr2.e < 1,
                z3.Or(z3.And(fr.e < 0.5, fr2.e < 0.5), z3.And(fr.e >= 0.5, fr2.e >= 0.5))]

        def fn2():
            e._jde = nd + fr
            e2._jde = nd + fr2
            return e.mean_sidereal_time(), e2.mean_sidereal_time()
        ctx, paths = core.explore(fn2, pre2, check_div0=False)
        t.absorb_ctx(ctx, paths)
        for i, p in enumerate(paths):
            tag = '@n%d.p%d' % (nd, i)
            if p.kind != 'ok':
                continue
            a, b = core.lift(p.val[0]), core.lift(p.val[1])
            t.reach += 1
            rate = z3.RealVal('1.00273790935')
            x = b.re() - a.re() - rate * (fr2.e - fr.e)
            turns = z3.ToInt(x + z3.RealVal('1/2'))
            tol = z3.RealVal('1/1000000000')
            bad = z3.Or(x - z3.ToReal(turns) > tol, x - z3.ToReal(turns) < -tol)
            # IAU 1982 expression (written here from the IAU formula, exact rationals): GMST at 0h UT of the day
            # + 1.00273790935 * elapsed fraction, in days, modulo 1
            half = z3.If(fr.e >= 0.5, z3.RealVal('1/2'), z3.RealVal('-1/2'))
            jd0 = Fr(nd)
            for hv, cond in ((Fr(1, 2), fr.e >= 0.5), (Fr(-1, 2), fr.e < 0.5)):
                T = (jd0 + hv - Fr(2451545)) / 36525
                g0 = (Fr('24110.54841') + Fr('8640184.812866') * T + Fr('0.093104') * T * T - Fr('0.0000062') * T ** 3) / 86400
                iau = z3.RealVal(str(g0)) + rate * (fr.e - z3.RealVal(str(hv)))
                dx = a.re() - iau
                k = z3.ToInt(dx + z3.RealVal('1/2'))
                tol7 = z3.RealVal('1/10000000')
                t.decide(ctx, p, 'mean sidereal time = IAU 1982 expression modulo 1 (1e-7 day)' + tag,
                         z3.And(cond, z3.Or(dx - z3.ToReal(k) > tol7, dx - z3.ToReal(k) < -tol7)), 'C16.sidereal',
                         lambda mo, nd=nd: {'n': nd, 'fr': str(harness.meval(mo, fr)), 'iau': True}, 'IAU 1982',
                         'day numbers %s (concrete), instant symbolic real' % days)
            t.decide(ctx, p, 'within a UT day sidereal time advances 1.00273790935 turns per day (mod 1)' + tag, bad,
                     'C16.sidereal', lambda mo, nd=nd: {'n': nd, 'fr': str(harness.meval(mo, fr)), 'fr2': str(harness.meval(mo, fr2))},
                     'rate', 'day numbers %s (concrete), both instants symbolic reals in the same UT day' % days)
    # apparent - mean
    from symx import trig
    dpsi = Num.real_var('dpsi')
    (clo, chi), _s = trig._bounds_sincos(Fr(22))
    # obliquity between 22 and 25 degrees: cos(eps) <= cos(22 deg) (rational enclosure, Taylor bound)
    pre3 = pre + trig.angle_pre('eps', 22, 25) + [z3.Real('c_eps') <= z3.RealVal(str(chi)), z3.Real('c_eps') > 0,
                                                   dpsi.e >= z3.RealVal('-19/3600'), dpsi.e <= z3.RealVal('19/3600')]

    def fn3():
        eps, _at = trig.input_angle(None, 'eps', 22, 25)
        e._jde = n + fr
        return e.mean_sidereal_time(), e.apparent_sidereal_time(eps, dpsi)
    ctx, paths = core.explore(fn3, pre3, check_div0=False, trig='atoms', opaque_mul=False)
    t.absorb_ctx(ctx, paths)
    for i, p in enumerate(paths):
        tag = '@p%d' % i
        if p.kind != 'ok':
            t.ob('apparent_sidereal_time total' + tag, 'sat', 0, bound)
            continue
        a, b = core.lift(p.val[0]), core.lift(p.val[1])
        t.reach += 2
        diff_s = (b.re() - a.re()) * 86400
        ce = z3.Real('c_eps')
        t.decide(ctx, p, 'apparent - mean sidereal time = dpsi*cos(eps)/15 (seconds of time)' + tag,
                 diff_s != dpsi.e * 3600 * ce / 15, 'C16.sidereal', lambda mo: {'n': harness.meval(mo, n)}, 'structure', bound)
        t.decide(ctx, p, 'apparent - mean sidereal time below 1.2 s for |dpsi| <= 19 arcsec' + tag,
                 z3.Or(diff_s >= z3.RealVal('1.2'), diff_s <= z3.RealVal('-1.2')), 'C16.sidereal',
                 lambda mo: {'n': harness.meval(mo, n)}, 'equation of the equinoxes', bound + '; obliquity 22..25 deg, cos(eps) <= cos 22 deg')
    return t


def main(tier):
    loader.install()
    chk = harness.Check(PID, tier)
    chk.replays = {k: REPLAY for k in ('C16.dow', 'C16.doy', 'C16.doy2date', 'C16.doy2date_fwd', 'C16.year')}
    chk.replays['C16.dowJ'] = r'''
import math
from pymeeus.Epoch import Epoch
e = Epoch(); e._jde = INPUTS['J'] - 0.5 + F(INPUTS['f'])
want = (INPUTS['J'] + 1) % 7
names = ['Sunday', 'Monday', 'Tuesday', 'Wednesday', 'Thursday', 'Friday', 'Saturday']
if e.dow() != want or e.dow(as_string=True) != names[want] or math.floor(e._jde + 1.5) % 7 != want:
    print('REPRODUCED dow', e.dow(), e.dow(as_string=True), want); sys.exit(1)
sys.exit(0)
'''
    chk.replays['C16.getdate'] = r'''
from pymeeus.Epoch import Epoch
e0 = Epoch(); e0._jde = INPUTS['J'] - 0.5
e1 = Epoch(); e1._jde = INPUTS['J'] - 0.5 + F(INPUTS['f'])
a, b = e0.get_date(), e1.get_date()
if a[0] != b[0] or a[1] != b[1] or abs(b[2] - a[2] - F(INPUTS['f'])) > 1e-8:
    print('REPRODUCED get_date fraction', a, b); sys.exit(1)
sys.exit(0)
'''
    chk.replays['C16.sidereal'] = r'''
from pymeeus.Epoch import Epoch
e = Epoch(); e._jde = INPUTS['n'] + F(INPUTS.get('fr', 0))
v = e.mean_sidereal_time()
if not (0 <= v < 1):
    print('REPRODUCED mean sidereal time out of range', v); sys.exit(1)
if INPUTS.get('iau'):
    jd = Fraction(INPUTS['n']) + Fraction(INPUTS['fr'])
    jd0 = (jd - Fraction(1, 2)).__floor__() + Fraction(1, 2)
    T = (jd0 - 2451545) / 36525
    g = (Fraction('24110.54841') + Fraction('8640184.812866') * T + Fraction('0.093104') * T * T - Fraction('0.0000062') * T ** 3) / 86400 + Fraction('1.00273790935') * (jd - jd0)
    dv = v - float(g % 1)
    if abs(dv - round(dv)) > 1e-7:
        print('REPRODUCED IAU 1982 disagreement', v, float(g % 1)); sys.exit(1)
if 'fr2' in INPUTS:
    e2 = Epoch(); e2._jde = INPUTS['n'] + F(INPUTS['fr2'])
    dv = e2.mean_sidereal_time() - v - 1.00273790935 * (F(INPUTS['fr2']) - F(INPUTS['fr']))
    if abs(dv - round(dv)) > 1e-9:
        print('REPRODUCED rate', dv); sys.exit(1)
sys.exit(0)
'''
    chk.functions = ['Epoch.dow', 'Epoch.get_doy', 'Epoch.doy2date', 'Epoch.year', 'Epoch.leap', 'Epoch.is_leap', 'Epoch.get_date',
                     'Epoch._compute_jde', 'Epoch._check_values', 'Epoch.mean_sidereal_time', 'Epoch.apparent_sidereal_time', 'base.iint',
                     'datetime.date (model: symx/models/dt.py, CPython algorithms)']
    chk.bounds = {'year': [YMIN, YMAX], 'time_of_day': 'symbolic integer number of milliseconds (0..86399999)',
                  'day of year clauses': 'year 1582 excluded (the two readings of the statement contradict each other in the reform year)',
                  'sidereal': 'JDE = n + fr, n symbolic Int in [0, 5.4e6], fr symbolic Real in [0,1)'}
    chk.stubs = ['Epoch.get_date() inside year()/leap() -> its summary (y, m, d+f) for the epoch built from that date (identity proved by C01 for the day and by the bridge/get_date-fraction tasks here for the time of day)',
                 'datetime.date -> model with CPython\'s _ymd2ord/_ord2ymd over symbolic ints (ValueError where CPython raises)',
                 'cos(true obliquity) boxed to [-1,1] for the size of the equation of the equinoxes']
    chk.outside = ['sidereal rate and IAU 1982 agreement for day numbers other than the 12 concrete ones of the run (the cubic in a symbolic day number under a floor is outside z3: unknown after 100 s in three formulations)',
                   'IEEE rounding inside mean_sidereal_time (real arithmetic there)']
    chk.assumptions = ['mode Q with cut lemmas for the calendar part (see coverage.cut_lemmas); sidereal clauses in real arithmetic']
    ns = {'Epoch': loader.mod('Epoch').Epoch}
    chk.diff([('lambda y,m,d: Epoch(y,m,d).dow()', [1954, 6, 30]), ('lambda y,m,d: Epoch(y,m,d).dow()', [2018, 2, 14.9]),
              ('lambda y,m,d: Epoch(y,m,d).dow()', [2018, 7, 15.9]), ('lambda y,m,d: Epoch.get_doy(y,m,d)', [1999, 1, 29]),
              ('lambda y,m,d: Epoch.get_doy(y,m,d)', [2017, 12, 31.7]), ('lambda y,m,d: Epoch.get_doy(y,m,d)', [-400, 2, 29.9]),
              ('lambda y,m,d: Epoch.get_doy(y,m,d)', [2012, 3, 3.1]), ('lambda y,n: Epoch.doy2date(y,n)', [2017, 365.7]),
              ('lambda y,n: Epoch.doy2date(y,n)', [-4, 60]), ('lambda y,n: Epoch.doy2date(y,n)', [-3, 60]),
              ('lambda y,n: Epoch.doy2date(y,n)', [2012, 63.1]), ('lambda y,m,d: Epoch(y,m,d).year()', [1993, 10, 1]),
              ('lambda y,m,d: Epoch(y,m,d).mean_sidereal_time()', [1987, 4, 10]),
              ('lambda y,m,d,h,mi,s: Epoch(y,m,d,h,mi,s).mean_sidereal_time()', [1987, 4, 10, 19, 21, 0.0]),
              ('lambda y,m,d: Epoch(y,m,d).apparent_sidereal_time(23.44357, (-3.788)/3600.0)', [1987, 4, 10])], ns,
             ctx_kw={'check_div0': False, 'trig': 'concrete'})
    months = range(1, 13)
    ts = []
    ts += chk.run(task_bridge, [(m, YMIN, YMAX) for m in months], 'JDE of date + time of day')
    ts += chk.run(task_dow, [0], 'weekday')
    ts += chk.run(task_getdate_frac, [0], 'get_date fraction')
    ts += chk.run(task_doy, [(m, YMIN, YMAX) for m in months], 'day of year')
    chunks = [(YMIN, -2000), (-1999, 0), (1, 800), (801, 1581), (1583, 3000), (3001, YMAX)]
    chk.run(task_doy2date, chunks, 'doy2date')
    chk.run(task_year, [(m, YMIN, YMAX) for m in months], 'fractional year')
    chk.run(task_spec, list(range(0, 13)), 'specification lemmas')
    chk.run(task_sidereal, [0], 'sidereal time')
    cuts.discharge(chk, ts, tier)
    return chk.finish()
