"""C12 -- interpolation reproduces polynomials; roots and extrema lie where asked.

Real code executed symbolically (mode R: z3 reals, non-linear): Interpolation.__init__/set/_order_points/
_compute_table/_newton_diff/__call__/derivative/root/minmax.
"""
import itertools
import z3

from symx import core, loader, harness, slicer
from symx.core import Num, Fr

PID = 'C12'
TOLV = Fr(1, 10 ** 10)


def R(name):
    return Num.real_var(name)


def sorted_pre(xs, gap=1):
    """abscissae strictly increasing and at least `gap` apart (gap >> tolerance keeps the table valid)"""
    pre = []
    for a, b in zip(xs, xs[1:]):
        pre.append(b.e - a.e >= gap)
    return pre


def horner_spec(coefs, x):
    """p(x) = sum c_j x^j  as a z3 term (written independently of the code)"""
    e = z3.RealVal(0)
    for c in reversed(coefs):
        e = e * x + c
    return e


def dhorner_spec(coefs, x):
    e = z3.RealVal(0)
    for j in range(len(coefs) - 1, 0, -1):
        e = e * x + j * coefs[j]
    return e


REPLAY = r'''
from pymeeus.Interpolation import Interpolation
import itertools
xs = [F(v) for v in INPUTS['xs']]; perm = INPUTS.get('perm', list(range(len(xs))))
bad = None
if SITE in ('C12.poly', 'C12.deriv'):
    coefs = [F(c) for c in INPUTS['coefs']]
    p = lambda t: sum(c * t ** j for j, c in enumerate(coefs))
    dp = lambda t: sum(j * c * t ** (j - 1) for j, c in enumerate(coefs) if j)
    px = [xs[i] for i in perm]
    form = INPUTS.get('form', 'lists')
    if form == 'lists':
        it = Interpolation(px, [p(v) for v in px])
    else:
        args = []
        for v in px: args += [v, p(v)]
        it = Interpolation(*args)
    x = F(INPUTS['x'])
    try:
        got, gd = it(x), it.derivative(x)
    except Exception as ex:
        got = gd = ex
    scale = max(1.0, abs(p(x)))
    if isinstance(got, Exception) or abs(got - p(x)) > 1e-7 * scale:
        bad = 'I(%r) = %r, polynomial value %r' % (x, got, p(x))
    elif abs(gd - dp(x)) > 1e-6 * max(1.0, abs(dp(x))):
        bad = "I'(%r) = %r, polynomial derivative %r" % (x, gd, dp(x))
elif SITE in ('C12.root', 'C12.rootstep'):
    tab = [F(v) for v in INPUTS['table']]
    n = len(xs)
    I = lambda t: sum(tab[k] * __import__('math').prod(t - xs[i] for i in range(k)) for k in range(n))
    it = Interpolation(xs, [I(v) for v in xs])
    xl, xh = F(INPUTS['xl']), F(INPUTS['xh'])
    lo, hi = max(min(xl, xh), xs[0]), min(max(xl, xh), xs[-1])
    if lo < hi and it(lo) * it(hi) < 0:
        try:
            r = it.root(xl, xh)
        except Exception as ex:
            r = ex
        if isinstance(r, Exception):
            bad = 'root(%r, %r) raised %r although the interpolant changes sign on the interval (I(%r)=%r, I(%r)=%r)' % (xl, xh, r, lo, it(lo), hi, it(hi))
        elif not (lo - 1e-12 <= r <= hi + 1e-12) or abs(it(r)) > 1e-9:
            bad = 'root(%r, %r) = %r outside [%r, %r] or not a root (I = %r)' % (xl, xh, r, lo, hi, it(r))
if bad is None and SITE == 'C12.rootstep':
    # The solver's state violates the loop invariant (the iterate leaves the bracket) but need not be reachable.
    # Confirmation-only search for a real call that realises it: root() returning outside [xl, xh] although the
    # interpolant changes sign there.  (A search that finds nothing proves nothing and is reported as such.)
    import random
    rnd = random.Random(12345)
    for trial in range(60000):
        n = rnd.choice([3, 4, 5])
        px = sorted(rnd.sample(range(0, 12), n))
        py = [rnd.choice([-3, -2, -1, 1, 2, 3]) * rnd.random() for _ in px]
        it = Interpolation(px, py)
        a, b = rnd.uniform(px[0], px[-1]), rnd.uniform(px[0], px[-1])
        lo, hi = min(a, b), max(a, b)
        if hi - lo < 1e-3 or it(lo) * it(hi) >= 0:
            continue
        try:
            r = it.root(lo, hi)
        except Exception as ex:
            r = ex
        if isinstance(r, Exception) or not (lo - 1e-9 <= r <= hi + 1e-9):
            bad = 'Interpolation(%r, %r).root(%r, %r) = %r: outside the interval on which the interpolant changes sign' % (px, py, lo, hi, r)
            break
if bad:
    print('REPRODUCED %s: %s' % (SITE, bad)); sys.exit(1)
print('not reproduced'); sys.exit(0)
'''


def task_poly(arg):
    """for y_i = p(x_i), deg p < n: I(x) = p(x) and I'(x) = p'(x) for every x in the table range, for one input
    permutation and input form; also I(x_i) = y_i, and refusal outside the table."""
    n, perm, form = arg
    t = harness.Task('poly n=%d perm=%s form=%s' % (n, perm, form))
    Interpolation = loader.mod('Interpolation').Interpolation
    xs = [R('x%d' % i) for i in range(n)]
    cs = [R('c%d' % j) for j in range(n)]
    x = R('x')
    pre = sorted_pre(xs)
    ys = [Num('r', e=horner_spec([c.e for c in cs], xi.e)) for xi in xs]

    def build():
        px = [xs[i] for i in perm]
        py = [ys[i] for i in perm]
        if form == 'lists':
            return Interpolation(list(px), list(py))
        if form == 'tuples':
            return Interpolation(tuple(px), tuple(py))
        args = []
        for a, b in zip(px, py):
            args += [a, b]
        return Interpolation(*args)

    def fn():
        it = build()
        return it._x, it._y, it(x), it.derivative(x)
    ctx, paths = core.explore(fn, pre, max_paths=400, timeout_ms=30000)
    t.absorb_ctx(ctx, paths)

    def inp(mo):
        return {'xs': [str(harness.meval(mo, v)) for v in xs], 'coefs': [str(harness.meval(mo, c)) for c in cs],
                'x': str(harness.meval(mo, x)), 'perm': list(perm), 'form': form if form != 'tuples' else 'lists'}
    bound = 'n=%d points, symbolic real abscissae (>= 1 apart), arbitrary polynomial of degree < n, input order %s, form %s' % (n, list(perm), form)
    inside = z3.And(x.e >= xs[0].e, x.e <= xs[-1].e)
    tolz = z3.RealVal(str(TOLV))
    # within the object's tolerance of a node __call__ returns the node's ordinate (checked separately)
    off_nodes = z3.And(*[z3.Or(x.e - xi.e >= tolz, xi.e - x.e >= tolz) for xi in xs])
    at_node = [z3.And(x.e - xi.e < tolz, xi.e - x.e < tolz) for xi in xs]
    for i, p in enumerate(paths):
        tag = '@n%d.%s.%s.p%d' % (n, ''.join(map(str, perm)), form, i)
        if p.kind == 'exc':
            t.reach += 1
            if isinstance(p.exc, ValueError) and 'outside' in str(p.exc):
                t.decide(ctx, p, 'ValueError only for abscissae outside the table' + tag, inside, 'C12.poly', inp, 'refused inside the table', bound)
            else:
                r, mo, _ = core.check(ctx, p, z3.BoolVal(True))
                t.ob('construction/evaluation total' + tag, 'sat', 0, bound)
                t.cand('C12.poly', inp(mo) if mo else {}, 'raised %r' % (p.exc,))
            continue
        if p.kind != 'ok':
            t.ob('unwinding' + tag, 'unwind', 0, bound)
            continue
        sx, sy, val, dval = p.val
        t.reach += 5
        ordered = z3.And(*[core.lift(a).re() == b.e for a, b in zip(sx, xs)] + [core.lift(a).re() == b.re() for a, b in zip(sy, ys)])
        t.decide(ctx, p, 'table sorted, pairs kept together' + tag, z3.Not(ordered), 'C12.poly', inp, 'ordering', bound)
        t.decide(ctx, p, 'accepted abscissae are inside the table' + tag, z3.Not(inside), 'C12.poly', inp, 'outside accepted', bound)
        t.decide(ctx, p, 'I(x) = p(x)' + tag, z3.And(off_nodes, core.lift(val).re() != horner_spec([c.e for c in cs], x.e)), 'C12.poly', inp, 'value', bound, timeout_ms=60000)
        t.decide(ctx, p, 'I(x_i) = y_i (within the tolerance of a node its ordinate is returned)' + tag,
                 z3.Or(*[z3.And(a, core.lift(val).re() != yi.re()) for a, yi in zip(at_node, ys)]), 'C12.poly', inp, 'node value', bound, timeout_ms=60000)
        t.decide(ctx, p, "I'(x) = p'(x)" + tag, core.lift(dval).re() != dhorner_spec([c.e for c in cs], x.e), 'C12.deriv', inp, 'derivative', bound, timeout_ms=60000)
        if i == 0:
            r, mo, _ = core.check(ctx, p, z3.BoolVal(True))
            if mo is not None:
                t.samples.append({'path': 'poly n=%d perm %s path 0' % (n, list(perm)), 'reach_witness': inp(mo)})
    return t


def task_refusals(_):
    t = harness.Task('refusals')
    Interpolation = loader.mod('Interpolation').Interpolation
    a, b, c, ya, yb, yc = [R(v) for v in ('a', 'b', 'c', 'ya', 'yb', 'yc')]
    # duplicated abscissae (any two of three within the tolerance) -> ValueError
    tol = z3.RealVal(str(TOLV))

    def ab(v):
        return z3.If(v >= 0, v, -v)
    dup = z3.Or(ab(a.e - b.e) < tol, ab(a.e - c.e) < tol, ab(b.e - c.e) < tol)
    ctx, paths = core.explore(lambda: Interpolation([a, b, c], [ya, yb, yc]), [], max_paths=200)
    t.absorb_ctx(ctx, paths)
    for i, p in enumerate(paths):
        tag = '@dup.p%d' % i
        t.reach += 1
        inp = lambda mo: {'xs': [str(harness.meval(mo, v)) for v in (a, b, c)]}
        if p.kind == 'exc' and isinstance(p.exc, ValueError):
            t.decide(ctx, p, 'ValueError only when two abscissae coincide' + tag, z3.Not(dup), 'C12.dup', inp, 'refused distinct', '3 symbolic points')
        elif p.kind == 'ok':
            t.decide(ctx, p, 'duplicated abscissae are refused' + tag, dup, 'C12.dup', inp, 'accepted duplicate', '3 symbolic points')
        else:
            t.ob('construction outcome' + tag, 'sat', 0, '')
            t.cand('C12.dup', {'xs': ['0', '1', '2']}, 'unexpected outcome %r %r' % (p.kind, p.exc))
    # too few points / wrong arity / wrong types: concrete argument shapes, documented exception classes
    shapes = [((a,), ValueError), (([a],), ValueError), (([a], [ya]), ValueError), ((a, ya), ValueError), ((a, ya, b), ValueError),
              (('x',), TypeError), ((None,), TypeError), (([a, b], 'y'), TypeError), ((a, ya, 'b', yb), TypeError)]
    for args, want in shapes:
        ctx, paths = core.explore(lambda: Interpolation(*args), [], max_paths=50)
        t.absorb_ctx(ctx, paths)
        ok = all(p.kind == 'exc' and isinstance(p.exc, want) for p in paths) and paths
        t.reach += 1
        t.ob('Interpolation%r raises %s' % (tuple(type(v).__name__ for v in args), want.__name__), 'unsat' if ok else 'sat', 0, 'argument shape')
        if not ok:
            t.cand('C12.shape', {'shape': repr(args)}, 'outcomes %r' % [(p.kind, p.exc) for p in paths])
    return t


def _table_obj(Interpolation, n, xs, tab):
    """an Interpolation object whose state is constructed directly: sorted symbolic abscissae, arbitrary
    symbolic Newton coefficients (any polynomial of degree < n), ordinates consistent with them"""
    it = Interpolation()
    it._x = list(xs)
    it._table = list(tab)
    ys = []
    for i in range(n):
        v = tab[n - 1]
        for k in range(n - 1, 0, -1):
            v = tab[k - 1] + (xs[i] - xs[k - 1]) * v
        ys.append(v)
    it._y = ys
    return it


def task_root_head(arg):
    """root(xl, xh) up to the loop: limit handling.  Whenever the interpolant changes sign on the requested interval
    (clipped to the table) there is no 'no root' ValueError and an early return lies inside the interval."""
    n, K = arg
    t = harness.Task('root head n=%d K=%d' % (n, K))
    Interpolation = loader.mod('Interpolation').Interpolation
    xs = [R('x%d' % i) for i in range(n)]
    tab = [R('t%d' % i) for i in range(n)]
    xl, xh = R('xl'), R('xh')
    pre = sorted_pre(xs) + [xs[0].e == 0]          # translation-invariant: fix the first abscissa
    it = _table_obj(Interpolation, n, xs, tab)

    def Ival(v):
        e = tab[n - 1].e
        for k in range(n - 1, 0, -1):
            e = tab[k - 1].e + (v - xs[k - 1].e) * e
        return e
    lo = z3.If(xl.e <= xh.e, xl.e, xh.e)
    hi = z3.If(xl.e <= xh.e, xh.e, xl.e)
    clo = z3.If(lo < xs[0].e, xs[0].e, lo)
    chi = z3.If(hi > xs[-1].e, xs[-1].e, hi)
    tol = z3.RealVal(str(TOLV))

    def Ieval(v):
        """the interpolant as the object evaluates it: within its tolerance of a node, the node's ordinate"""
        e = Ival(v)
        for i in range(n - 1, -1, -1):
            e = z3.If(z3.And(v - xs[i].e < tol, xs[i].e - v < tol), Ival(xs[i].e), e)
        return e
    signchange = z3.And(clo < chi, Ieval(clo) * Ieval(chi) < 0, z3.Not(z3.And(xl.e == 0, xh.e == 0)))

    def fn():
        return it.root(xl, xh, K)
    ctx, paths = core.explore(fn, pre, max_paths=600, timeout_ms=20000, max_decisions=200)
    t.absorb_ctx(ctx, paths)

    def inp(mo):
        return {'xs': [str(harness.meval(mo, v)) for v in xs], 'table': [str(harness.meval(mo, v)) for v in tab],
                'xl': str(harness.meval(mo, xl)), 'xh': str(harness.meval(mo, xh))}
    bound = 'n=%d symbolic table (any polynomial of degree < n), any real xl, xh; at most %d iterations of the solver loop' % (n, K)
    for i, p in enumerate(paths):
        tag = '@n%d.K%d.p%d' % (n, K, i)
        if p.kind == 'exc':
            msg = str(p.exc)
            t.reach += 1
            if isinstance(p.exc, ValueError) and 'Too many iterations' in msg:
                t.unwind += 1       # wanted more than K iterations: outside this bounded claim
                continue
            if isinstance(p.exc, ValueError) and 'equal' in msg:
                t.decide(ctx, p, '"limits are equal" only when they are' + tag, z3.Or(xl.e - xh.e >= tol, xh.e - xl.e >= tol), 'C12.root', inp, 'limits', bound)
                continue
            if isinstance(p.exc, ValueError) and ('no root' in msg or 'outside' in msg):
                t.decide(ctx, p, 'no ValueError when the interpolant changes sign on [xl, xh]' + tag, signchange, 'C12.root', inp,
                         'root refused although the sign changes (%s)' % msg[:40], bound, timeout_ms=60000)
                continue
            r, mo, _ = core.check(ctx, p, z3.BoolVal(True))
            t.ob('root outcome' + tag, 'sat', 0, bound)
            t.cand('C12.root', inp(mo) if mo else {}, 'raised %r' % (p.exc,))
            continue
        if p.kind != 'ok':
            continue
        r = core.lift(p.val)
        t.reach += 1
        bad = z3.And(signchange, z3.Or(r.re() < clo, r.re() > chi, Ieval(r.re()) > tol, Ieval(r.re()) < -tol))
        t.decide(ctx, p, 'returned abscissa lies in [xl, xh] and is a root (tolerance)' + tag, bad, 'C12.root', inp, 'returned root', bound, timeout_ms=60000)
    return t


def task_root_step(n):
    """one iteration of root()'s loop (its body, sliced from the current source) from an ARBITRARY bracketed state:
    the iterate stays inside the bracket, the bracket shrinks inside itself and keeps the sign change.
    By induction the returned abscissa lies in the caller's interval for any number of iterations."""
    t = harness.Task('root step n=%d' % n)
    Interpolation = loader.mod('Interpolation').Interpolation
    body, test, _src = slicer.loop_body('Interpolation', 'Interpolation.root',
                                        'self, xl, xh, yl, yh, x, y, xmin, xmax, num_iter, max_iter', '(xl, xh, yl, yh, x, y)')
    xs = [R('x%d' % i) for i in range(n)]
    tab = [R('t%d' % i) for i in range(n)]
    xl, xh, x = R('xl'), R('xh'), R('x')
    it = _table_obj(Interpolation, n, xs, tab)

    def Ival(v):
        e = tab[n - 1].e
        for k in range(n - 1, 0, -1):
            e = tab[k - 1].e + (v - xs[k - 1].e) * e
        return e
    tol = z3.RealVal(str(TOLV))
    # the stored ordinates are whatever the object's own evaluation returned (near a node: the node's ordinate):
    # the bracket logic only needs their signs, so they are free values here
    yl, yh, y = R('yl'), R('yh'), R('y')
    pre = sorted_pre(xs) + [xs[0].e == 0, xs[0].e <= xl.e, xl.e < xh.e, xh.e <= xs[-1].e, xl.e <= x.e, x.e <= xh.e,
                            yl.e * yh.e < 0, z3.Or(y.e > tol, y.e < -tol)]

    def fn():
        return body(it, xl, xh, yl, yh, x, y, xs[0], xs[-1], 0, 1000)
    ctx, paths = core.explore(fn, pre, max_paths=400, timeout_ms=20000)
    t.absorb_ctx(ctx, paths)

    def inp(mo):
        return {'xs': [str(harness.meval(mo, v)) for v in xs], 'table': [str(harness.meval(mo, v)) for v in tab],
                'xl': str(harness.meval(mo, xl)), 'xh': str(harness.meval(mo, xh)), 'x': str(harness.meval(mo, x)),
                'yl': str(harness.meval(mo, yl)), 'yh': str(harness.meval(mo, yh)), 'y': str(harness.meval(mo, y))}
    bound = 'n=%d symbolic table, arbitrary loop state with x in [xl, xh] inside the table and I(xl)*I(xh) < 0; one iteration' % n
    for i, p in enumerate(paths):
        tag = '@n%d.p%d' % (n, i)
        if p.kind != 'ok':
            if p.kind == 'exc' and isinstance(p.exc, ZeroDivisionError):
                r, mo, _ = core.check(ctx, p, z3.BoolVal(True))
                t.ob('loop body total' + tag, 'sat', 0, bound)
                t.cand('C12.rootstep', inp(mo) if mo else {}, 'division by zero in the loop body')
            continue
        nxl, nxh, nyl, nyh, nx, ny = [core.lift(v).re() for v in p.val]
        t.reach += 3
        t.decide(ctx, p, 'iterate stays inside the current bracket' + tag, z3.Or(nx < xl.e, nx > xh.e), 'C12.rootstep', inp,
                 'iterate leaves [xl, xh]', bound, timeout_ms=60000)
        t.decide(ctx, p, 'new bracket inside the old one, iterate inside it' + tag,
                 z3.Or(nxl < xl.e, nxh > xh.e, nxl > nxh, nx < nxl, nx > nxh), 'C12.rootstep', inp, 'bracket', bound, timeout_ms=60000)
        t.decide(ctx, p, 'bracket keeps the strict sign change while the loop continues' + tag,
                 z3.And(z3.Or(ny > tol, ny < -tol), nyl * nyh >= 0), 'C12.rootstep', inp, 'sign change', bound, timeout_ms=60000)
    return t


def task_minmax(n):
    """minmax builds an Interpolation through n samples of I' (degree n-2 < n): it reproduces I' exactly, so its
    root() is a zero of the derivative (root clauses transfer)"""
    t = harness.Task('minmax n=%d' % n)
    Interpolation = loader.mod('Interpolation').Interpolation
    xs = [R('x%d' % i) for i in range(n)]
    cs = [R('c%d' % j) for j in range(n)]
    x = R('x')
    pre = sorted_pre(xs) + [x.e >= xs[0].e, x.e <= xs[-1].e]
    ys = [Num('r', e=horner_spec([c.e for c in cs], xi.e)) for xi in xs]

    def fn():
        it = Interpolation(list(xs), list(ys))
        # what minmax() does before calling root(): tabulate the derivative at the nodes
        prime = Interpolation(list(it._x), [it.derivative(xi) for xi in it._x])
        return prime(x)
    ctx, paths = core.explore(fn, pre, max_paths=200, timeout_ms=30000)
    t.absorb_ctx(ctx, paths)
    bound = 'n=%d, arbitrary polynomial data of degree < n' % n
    for i, p in enumerate(paths):
        tag = '@n%d.p%d' % (n, i)
        if p.kind != 'ok':
            t.ob('derivative table total' + tag, 'sat' if p.kind == 'exc' else 'unwind', 0, bound)
            continue
        t.reach += 1
        tolz = z3.RealVal(str(TOLV))
        off_nodes = z3.And(*[z3.Or(x.e - xi.e >= tolz, xi.e - x.e >= tolz) for xi in xs])
        t.decide(ctx, p, "derivative table interpolates I' exactly" + tag, z3.And(off_nodes, core.lift(p.val).re() != dhorner_spec([c.e for c in cs], x.e)),
                 'C12.deriv', lambda mo: {'xs': [str(harness.meval(mo, v)) for v in xs], 'coefs': [str(harness.meval(mo, c)) for c in cs],
                                          'x': str(harness.meval(mo, x))}, 'minmax table', bound, timeout_ms=60000)
    return t


def task_conjunction(_):
    """conjunction helpers: structure.  Interpolation is replaced (inside Coordinates only) by a recorder whose
    root() is an opaque token: the helper must tabulate the coordinate differences on abscissae centred on the
    middle entry (n = 0) -- the last entry dropped when their number is even -- and return that table's root
    (and the other table evaluated there).  What root()/__call__ do with such a table is decided above."""
    t = harness.Task('conjunction helpers')
    coords = loader.mod('Coordinates')
    Angle = loader.mod('Angle').Angle
    made = []

    class Rec(object):
        def __init__(self, xs, ys):
            self.xs, self.ys = list(xs), list(ys)
            made.append(self)

        def root(self, *a):
            return ('root', self)

        def __call__(self, x):
            return ('eval', self, x)
    orig = coords.Interpolation
    coords.Interpolation = Rec
    try:
        for n in (3, 4, 5, 6, 7):
            a1 = [R('a1_%d' % i) for i in range(n)]
            d1 = [R('d1_%d' % i) for i in range(n)]
            a2 = [R('a2_%d' % i) for i in range(n)]
            d2 = [R('d2_%d' % i) for i in range(n)]
            pre = [z3.And(v.e > -80, v.e < 80) for v in a1 + d1 + a2 + d2]
            used = n if n % 2 == 1 else n - 1
            h = (used - 1) // 2
            for fname in ('planetary_conjunction', 'planet_star_conjunction', 'planet_stars_in_line'):
                def fn():
                    del made[:]
                    A = lambda v: Angle(v)
                    if fname == 'planetary_conjunction':
                        r = coords.planetary_conjunction([A(v) for v in a1], [A(v) for v in d1], [A(v) for v in a2], [A(v) for v in d2])
                    elif fname == 'planet_star_conjunction':
                        r = coords.planet_star_conjunction([A(v) for v in a1], [A(v) for v in d1], A(a2[0]), A(d2[0]))
                    else:
                        r = coords.planet_stars_in_line([A(v) for v in a1], [A(v) for v in d1], A(a2[0]), A(d2[0]), A(a2[1]), A(d2[1]))
                    return r, list(made)
                ctx, paths = core.explore(fn, pre, trig='box', check_div0=False, max_paths=50)
                t.absorb_ctx(ctx, paths)
                bound = '%s with %d tabulated positions (symbolic angles in (-80, 80) degrees)' % (fname, n)
                for i, p in enumerate(paths):
                    tag = '@%s.n%d.p%d' % (fname, n, i)
                    t.reach += 1
                    if p.kind != 'ok':
                        t.ob('helper total' + tag, 'sat', 0, bound)
                        t.cand('C12.conj', {'fname': fname, 'n': n}, 'raised %r' % (p.exc,))
                        continue
                    r, recs = p.val
                    ok = len(recs) >= 1 and [core.lift(v).cval() for v in recs[0].xs] == [Fr(k) for k in range(-h, h + 1)]
                    ok = ok and all(len(rc.ys) == used and [core.lift(v).cval() for v in rc.xs] == [Fr(k) for k in range(-h, h + 1)] for rc in recs)
                    if fname == 'planet_stars_in_line':
                        ok = ok and len(recs) == 1 and r == ('root', recs[0])
                    else:
                        ok = ok and len(recs) == 2 and r[0] == ('root', recs[0]) and r[1] == ('eval', recs[1], ('root', recs[0]))
                    t.ob('abscissae centred on the middle entry; returns the root of the difference table' + tag, 'unsat' if ok else 'sat', 0, bound)
                    if not ok:
                        t.cand('C12.conj', {'fname': fname, 'n': n}, 'abscissae %r' % ([str(core.lift(v).cval()) for v in recs[0].xs] if recs else None,))
                        continue
                    if fname != 'planet_stars_in_line':
                        second = a2 if fname == 'planetary_conjunction' else [a2[0]] * n
                        second_d = d2 if fname == 'planetary_conjunction' else [d2[0]] * n
                        bad = z3.Or(*([core.lift(recs[0].ys[k]._deg).re() != a1[k].e - second[k].e for k in range(used)] +
                                      [core.lift(recs[1].ys[k]._deg).re() != d1[k].e - second_d[k].e for k in range(used)]))
                        t.decide(ctx, p, 'tabulated values are the coordinate differences of the two bodies' + tag, bad, 'C12.conj',
                                 lambda mo, fname=fname, n=n: {'fname': fname, 'n': n}, 'differences', bound)
    finally:
        coords.Interpolation = orig
    return t


def main(tier):
    loader.install()
    chk = harness.Check(PID, tier)
    chk.replays = {k: REPLAY for k in ('C12.poly', 'C12.deriv', 'C12.root', 'C12.rootstep')}
    chk.replays['C12.dup'] = r'''
from pymeeus.Interpolation import Interpolation
xs = [F(v) for v in INPUTS['xs']]
dup = any(abs(a - b) < 1e-10 for i, a in enumerate(xs) for b in xs[i + 1:])
try:
    Interpolation(xs, [1.0, 2.0, 4.0]); raised = False
except ValueError:
    raised = True
if raised != dup:
    print('REPRODUCED duplicate handling', xs, raised); sys.exit(1)
sys.exit(0)
'''
    chk.replays['C12.conj'] = r'''
from pymeeus.Angle import Angle
import pymeeus.Coordinates as C
from pymeeus.Interpolation import Interpolation
n = INPUTS['n']; fname = INPUTS['fname']
import math
a1 = [Angle(10.0 + 1.3 * i + 0.11 * i * i) for i in range(n)]; d1 = [Angle(5.0 - 0.4 * i + 0.02 * i * i) for i in range(n)]
a2 = [Angle(12.0 + 0.3 * i - 0.05 * i * i) for i in range(n)]; d2 = [Angle(4.0 + 0.2 * i) for i in range(n)]
used = n if n % 2 else n - 1; h = (used - 1) // 2
if fname == 'planet_stars_in_line':
    got = C.planet_stars_in_line(a1, d1, a2[0], d2[0], a2[1], d2[1])
    ref = C.planet_stars_in_line(a1[:used], d1[:used], a2[0], d2[0], a2[1], d2[1])
    bad = abs(got - ref) > 1e-9
else:
    if fname == 'planetary_conjunction':
        got = C.planetary_conjunction(a1, d1, a2, d2); s2 = a2
    else:
        got = C.planet_star_conjunction(a1, d1, a2[0], d2[0]); s2 = [a2[0]] * n
    it = Interpolation(list(range(-h, h + 1)), [float(a1[k] - s2[k]) for k in range(used)])
    try:
        bad = abs(it(got[0])) > 1e-6
    except Exception:
        bad = True
if bad:
    print('REPRODUCED conjunction helper', fname, n, got); sys.exit(1)
sys.exit(0)
'''
    chk.replays['C12.shape'] = "print('shape candidates are decided on the instrumented run only'); sys.exit(0)\n"
    chk.functions = ['Interpolation.__init__', 'Interpolation.set', 'Interpolation._order_points', 'Interpolation._compute_table',
                     'Interpolation._newton_diff', 'Interpolation.__call__', 'Interpolation.derivative', 'Interpolation.root (head, loop body sliced)',
                     'Interpolation.minmax (its derivative table)', 'Coordinates.planetary_conjunction', 'Coordinates.planet_star_conjunction', 'Coordinates.planet_stars_in_line']
    ns = {'Interpolation': loader.mod('Interpolation').Interpolation}
    chk.diff([('lambda a,b,c,d,e,f,x: Interpolation([a,b,c],[d,e,f])(x)', [7, 8, 9, 0.884226, 0.877366, 0.870531, 8.18125]),
              ('lambda a,b,c,d,e,f,x: Interpolation([a,b,c],[d,e,f]).derivative(x)', [7, 8, 9, 0.884226, 0.877366, 0.870531, 8.18125]),
              ('lambda a,b,c,d,e,f: Interpolation([a,b,c],[d,e,f]).root()', [26.0, 27.0, 28.0, -0.4726575, 0.2246189, 0.9212431]),
              ('lambda a,b,c,d,e,f: Interpolation([a,b,c],[d,e,f]).minmax()', [12, 16, 20, 1.3814294, 1.3812213, 1.3812453]),
              ('lambda a,b,c,d: Interpolation([a,b],[c,d])(1.25)', [1, 2, 3.0, 5.0])], ns, tol=1e-7, ctx_kw={'check_div0': False})
    nmax = 4 if tier == 'quick' else 5
    items = []
    for n in range(2, nmax + 1):
        perms = list(itertools.permutations(range(n)))
        if n >= 4 and tier == 'quick':
            import random
            rnd = random.Random(chk.seed)
            perms = [perms[0], perms[-1]] + rnd.sample(perms[1:-1], 6)
        if n >= 5:
            import random
            rnd = random.Random(chk.seed)
            perms = [perms[0], perms[-1]] + rnd.sample(perms[1:-1], 10)
        for k, pm in enumerate(perms):
            items.append((n, pm, ('lists', 'scalars', 'tuples')[k % 3]))
    chk.run(task_poly, items, 'polynomial reproduction')
    chk.run(task_refusals, [0], 'refusals')
    chk.run(task_root_head, [(2, 0), (2, 1), (3, 0)], 'root(): limits and bounded iterations')      # deeper unrollings ((2,2), (3,1), (4,0)) exhaust the path budget: not part of any tier
    chk.run(task_root_step, [2, 3] + ([4] if tier == 'thorough' else []), 'root(): inductive step of the loop')
    chk.run(task_minmax, [3, 4] if tier == 'quick' else [3, 4, 5], 'minmax derivative table')
    chk.run(task_conjunction, [0], 'conjunction helpers')
    chk.bounds = {'points': '2..%d' % nmax, 'input orders': 'all n! for n <= 3; first, last and seeded others above', 'abscissae': 'symbolic reals at least 1 apart',
                  'root': 'symbolic tables of 2..3 points; loop: one inductive step from an arbitrary bracketed state (any number of iterations by induction) + the real entry with at most %s iterations' % ('1 (n=2), 0 (n=3)' if tier == 'quick' else '2 (n=2), 1 (n=3), 0 (n=4)')}
    chk.outside = ['floating-point conditioning (real arithmetic)', 'tables of more than %d points' % nmax, 'abscissae closer than 1 but farther than the tolerance',
                   'termination of the root loop (only safety: whatever is returned lies in the interval and is a root)',
                   'minimum_angular_separation (its own iteration, not built on Interpolation)']
    chk.assumptions = ['mode R: IEEE doubles treated as reals; the 1e-9 of the statement is therefore not addressed, the identities are exact']
    return chk.finish()
