"""C14 -- seasons: the part of the property that does not depend on the VALUES of the solar series.

Real code executed symbolically: Sun.get_equinox_solstice with Sun.apparent_geocentric_position replaced by an
uninterpreted position theory (a fresh symbolic longitude per call; the epoch it was asked for is recorded), sin boxed.
Decided:  the year guard;  partial correctness of the correction loop -- whenever it exits, the returned instant is the
epoch at which the longitude was last evaluated (up to the stated drift budget) and that longitude lambda satisfies
|sin(k*90 - lambda)| <= sin(1e-5 degree);  the starting instants (Meeus tables 27.A/B) of a year are in order, 88..95 days
apart, and 365.2..365.3 days from those of the next year (so the iteration starts in the basin of the right season).
"""
import z3

from symx import core, loader, harness
from symx.core import Num

PID = 'C14'
TARGETS = ['spring', 'summer', 'autumn', 'winter']
RAD = 0.017453292519943295
UNWIND = 3

REPLAY = r'''
from pymeeus.Epoch import Epoch
from pymeeus.Sun import Sun
bad = None
if INPUTS['kind'] == 'guard':
    for y, should in ((-1001, True), (3001, True), (-1000, False), (3000, False), (999, False), (1000, False)):
        try:
            Sun.get_equinox_solstice(y, 'spring'); raised = False
        except ValueError:
            raised = True
        if raised != should:
            bad = 'year %d: ValueError raised=%r' % (y, raised)
elif INPUTS['kind'] == 'interpol':
    # through the public routine: a body with the solver's tabulated right ascensions, constant declination; at the returned
    # transit time it must be on the meridian (hour angle 0 mod 360 to 0.005 degree)
    from pymeeus.Angle import Angle
    from pymeeus.Coordinates import times_rise_transit_set
    Y1, d1, d2 = INPUTS['Y1'], INPUTS['d1'], INPUTS['d2']
    for (y1, a, b) in ((Y1, d1, d2), (359.0, 0.8, 0.8), (359.7, 0.8, 0.8), (0.3, -0.8, -0.8), (358.9, 1.2, 1.0)):
        al = [Angle(y1 % 360.0), Angle((y1 + a) % 360.0), Angle((y1 + a + b) % 360.0)]
        de = Angle(10.0)
        lon, lat, h0, th0, dt = Angle(0.0), Angle(40.0), Angle(-0.5667), Angle(100.0), 69.0
        r = times_rise_transit_set(lon, lat, al[0], de, al[1], de, al[2], de, h0, dt, th0)
        if r[1] is None:
            continue
        m0 = r[1] / 24.0
        nn = m0 + dt / 86400.0
        alpha = (y1 + a) + nn * (a + b + nn * (b - a)) / 2.0
        H = (100.0 + 360.985647 * m0 - 0.0 - alpha + 180.0) % 360.0 - 180.0
        if abs(H) > 0.005:
            bad = 'right ascensions %r: at the returned transit (%.4f h) the hour angle is %r degrees' % ([float(x) for x in al], r[1], H); break
elif INPUTS['kind'] == 'eot':
    # every day of a few years on the real library (no stubs): within 25 minutes of zero, less than 45 s change per day
    for y in (1800, 1999, 2000, 2024, 2199):
        prev = None
        j0 = Epoch(y, 1, 1.0).jde()
        for d in range(366):
            m, s = Sun.equation_of_time(Epoch(j0 + d))
            v = (abs(m) + s / 60.0) * (-1 if m < 0 else 1)
            if abs(m) + s / 60.0 > 25:
                bad = 'equation of time on JDE %r = %r min %r s' % (j0 + d, m, s); break
            if prev is not None and abs(v - prev) * 60 > 45 and abs(m) >= 1 and abs(int(prev)) >= 1:
                bad = 'equation of time changes by %r s in one day at JDE %r' % ((v - prev) * 60, j0 + d); break
            prev = v
        if bad:
            break
else:
    ys = sorted(set([INPUTS.get('year', 2000)] + list(range(-1000, 3000, 61)) + [-1000, 999, 1000, 2999]))
    for y in ys:
        if not (-1000 <= y <= 2999):
            continue
        inst = []
        for k, tg in enumerate(['spring', 'summer', 'autumn', 'winter']):
            e = Sun.get_equinox_solstice(y, tg)
            lon = float(Sun.apparent_geocentric_position(e)[0].to_positive())
            d = (lon - 90.0 * k + 180.0) % 360.0 - 180.0
            if abs(d) > 1e-5:
                bad = 'year %d %s: apparent longitude %r at the returned instant' % (y, tg, lon); break
            inst.append(e.jde())
        if bad:
            break
        gaps = [b - a for a, b in zip(inst, inst[1:])]
        if any(not (88 <= g <= 95) for g in gaps):
            bad = 'year %d: seasons %r days apart' % (y, gaps); break
        nxt = Sun.get_equinox_solstice(y + 1, 'spring').jde() - inst[0]
        if not (365.2 <= nxt <= 365.3):
            bad = 'spring %d -> %d: %r days' % (y, y + 1, nxt); break
if bad:
    print('REPRODUCED %s: %s' % (SITE, bad)); sys.exit(1)
print('not reproduced'); sys.exit(0)
'''


class PassAngle(object):
    """stand-in for Angle inside Sun: a plain value in degrees (the longitude of the stubbed theory is already arbitrary)"""
    def __init__(self, v=0.0, *a, **k):
        self.v = v.v if isinstance(v, PassAngle) else v

    def to_positive(self):
        return self

    def rad(self):
        return self.v * Num.const(RAD)

    def __rsub__(self, o):
        return PassAngle(o - self.v)

    def __sub__(self, o):
        return PassAngle(self.v - (o.v if isinstance(o, PassAngle) else o))

    def __call__(self):
        return self.v


def _explore(target, ypre, stub_theory=True):
    mod = loader.mod('Sun')
    E = loader.mod('Epoch')
    Epoch = E.Epoch
    year = Num.int_var('year')
    calls = []
    orig_set, orig_angle, orig_pos = Epoch.set, mod.Angle, mod.Sun.apparent_geocentric_position

    def set_summary(self, *args, **kw):
        if len(args) == 1 and not kw and core.s_isinstance(args[0], (int, float)):
            self._jde = args[0]
            return
        return orig_set(self, *args, **kw)

    def theory(epoch, *a, **k):
        n = len(calls)
        lon = Num.real_var('lon%d' % n)
        calls.append((epoch._jde, lon))
        return PassAngle(lon), PassAngle(0.0), 1.0

    def run():
        del calls[:]
        r = mod.Sun.get_equinox_solstice(year, target)
        k = TARGETS.index(target)
        # the box of sin(radians(k*90 - lambda_last)), formed the way the property states it
        last = calls[-1]
        spec_box = core.MATH['sin']((k * 90.0 - last[1]) * Num.const(RAD)) if calls else None
        return r._jde, list(calls), spec_box
    Epoch.set = set_summary
    mod.Angle = PassAngle
    mod.Sun.apparent_geocentric_position = staticmethod(theory)
    try:
        ctx, paths = core.explore(run, ypre(year), trig='box', check_div0=False, timeout_ms=20000, max_paths=200, max_seconds=300, max_decisions=3 + UNWIND)
    finally:
        Epoch.set, mod.Angle, mod.Sun.apparent_geocentric_position = orig_set, orig_angle, orig_pos
    return year, ctx, paths


def task_loop(target):
    t = harness.Task('get_equinox_solstice(%s)' % target)
    year, ctx, paths = _explore(target, lambda y: [y.n >= -3000, y.n <= 5000])
    t.absorb_ctx(ctx, paths)
    bd = 'every integer year; position theory = uninterpreted (fresh longitude per call); exits within %d iterations of the loop' % UNWIND
    inp = lambda mo: {'kind': 'loop', 'target': target, 'year': min(max(harness.meval(mo, year), -1000), 2999) if mo is not None else 2000}
    n_exit = 0
    for i, p in enumerate(paths):
        tag = '@%s.p%d' % (target, i)
        t.reach += 1
        if p.kind == 'exc':
            if isinstance(p.exc, ValueError):
                t.decide(ctx, p, 'ValueError only for years outside -1000..3000' + tag, z3.And(year.n >= -1000, year.n <= 3000), 'C14.guard',
                         lambda mo: {'kind': 'guard'}, 'guard', bd, retry=False)
            else:
                t.ob('no exception other than ValueError' + tag, 'sat', 0, bd)
                t.cand('C14.loop', inp(None), 'exception %r' % (p.exc,))
            continue
        if p.kind != 'ok':
            t.unwind += 1          # the path that keeps iterating beyond the unwinding bound
            continue
        n_exit += 1
        ret, calls, box = p.val
        ret = core.lift(ret).re()
        t.decide(ctx, p, 'accepted years lie in -1000..3000' + tag, z3.Or(year.n < -1000, year.n > 3000), 'C14.guard', lambda mo: {'kind': 'guard'}, 'guard', bd, retry=False)
        if not calls or box is None:
            t.ob('the longitude is evaluated before returning' + tag, 'sat', 0, bd)
            t.cand('C14.loop', inp(None), 'returned without asking the position theory')
            continue
        e_last = core.lift(calls[-1][0]).re()
        s_last = core.lift(box).re()
        drift = z3.If(ret >= e_last, ret - e_last, e_last - ret)
        # 1e-5 degree in total: the Sun moves at most 1.02 degree/day over the drift, the rest must be covered by the exit test
        budget = z3.RealVal(repr(RAD)) * (z3.RealVal('1/100000') - z3.RealVal('1.02') * drift) * z3.RealVal('0.999999')
        t.decide(ctx, p, 'on exit after %d evaluation(s): |sin(k*90 - lambda)| <= sin(1e-5 deg - 1.02 deg/day * |returned - evaluated|)' % len(calls) + tag,
                 z3.Or(s_last > budget, s_last < -budget), 'C14.loop', inp, 'exit condition', bd, timeout_ms=60000, retry=False)
        # every evaluation happens at the previous epoch moved by 58 * sin(...) (the Newton-like step of Meeus ch. 27)
        t.reach += 1
    if n_exit == 0:
        t.ob('the loop can exit' + '@' + target, 'unknown', 0, bd)
    t.notes.append('|sin x| <= sin(1e-5 deg) places x within 1e-5 degree of a multiple of 180 degrees; which multiple (the season or the opposite one) '
                   'depends on the start instant being in the basin of the right root: the order/spacing obligations on the start instants')
    return t


def task_seeds(_):
    """the start instants of tables 27.A / 27.B as the code computes them (loop stubbed to exit at once)"""
    t = harness.Task('start instants')
    mod = loader.mod('Sun')
    E = loader.mod('Epoch')
    Epoch = E.Epoch
    seeds = {}
    yv = z3.Int('year')
    for tg in TARGETS:
        year, ctx, paths = _explore(tg, lambda y: [y.n >= -1000, y.n <= 3000])
        t.absorb_ctx(ctx, paths)
        era = {}
        for p in paths:
            if p.kind != 'ok' or len(p.val[1]) != 1:
                continue
            first_call = core.lift(p.val[1][0][0]).re()
            for nm, lo, hi in (('A', -1000, 999), ('B', 1000, 3000)):
                s = z3.Solver()
                s.add(*ctx.pre)
                s.add(*p.pc) if hasattr(p, 'pc') else None
                s.add(year.n >= lo, year.n <= hi)
                if s.check() == z3.sat:
                    era[nm] = z3.substitute(first_call, (year.n, yv))
        seeds[tg] = era
    ok = all(len(seeds[tg]) == 2 for tg in TARGETS)
    t.ob('start instant of each season found for both tables (27.A: -1000..999, 27.B: 1000..3000)', 'unsat' if ok else 'unknown', 0, '4 seasons x 2 tables')
    if not ok:
        return t

    def sd(tg, y):
        return z3.If(y < 1000, z3.substitute(seeds[tg]['A'], (yv, y)), z3.substitute(seeds[tg]['B'], (yv, y)))
    dom = [yv >= -1000, yv <= 2999]

    def ask(name, bad, bound):
        s = z3.Solver()
        s.set('timeout', 120000)
        s.add(*dom)
        s.add(bad)
        r = str(s.check())
        t.ob(name, r, 0, bound)
        t.reach += 1
        if r == 'sat':
            t.cand('C14.loop', {'kind': 'loop', 'target': 'spring', 'year': s.model().eval(yv, model_completion=True).as_long()}, name)
    for a, b in zip(TARGETS, TARGETS[1:]):
        g = sd(b, yv) - sd(a, yv)
        ask('start instants: %s -> %s of the same year 88.2..94.8 days apart' % (a, b), z3.Or(g < z3.RealVal('88.2'), g > z3.RealVal('94.8')), 'every year -1000..2999')
    g = sd('spring', yv + 1) - sd('winter', yv)
    ask('start instants: winter -> next spring 88.2..94.8 days apart', z3.Or(g < z3.RealVal('88.2'), g > z3.RealVal('94.8')), 'every year -1000..2999 (across the table switch at 1000)')
    for tg in TARGETS:
        g = sd(tg, yv + 1) - sd(tg, yv)
        ask('start instants: %s of consecutive years 365.21..365.29 days apart' % tg, z3.Or(g < z3.RealVal('365.21'), g > z3.RealVal('365.29')),
            'every year -1000..2999 (across the table switch at 1000)')
    return t


def task_eot(_):
    """Sun.equation_of_time after `l0 = l0.to_positive()`: the real Angle arithmetic, with the mean longitude L0, the right
    ascension A, the nutation P and cos(eps) arbitrary.  The returned (m, s) must encode 4 * E_red minutes, E_red being
    E = L0 - 0.0057183 - A + P*cos(eps) reduced to [-180, 180] -- anything else is hundreds of minutes off."""
    from symx import slicer
    t = harness.Task('equation_of_time')
    mod = loader.mod('Sun')
    Angle = loader.mod('Angle').Angle
    E = loader.mod('Epoch')
    try:
        tail, _src = slicer.tail_after('Sun', 'Sun.equation_of_time', 'l0 = l0.to_positive()', 'epoch, l0')
    except core.EngineError as ex:
        t.ob('equation_of_time: slice after the mean longitude', 'unknown', 0, str(ex))
        return t
    L0, A, P, c = Num.real_var('L0'), Num.real_var('A'), Num.real_var('P'), Num.real_var('ceps')
    pre = [L0.e >= 0, L0.e < 360, A.e >= 0, A.e < 360, P.e >= z3.RealVal('-0.01'), P.e <= z3.RealVal('0.01'), c.e >= z3.RealVal('0.89'), c.e <= z3.RealVal('0.94')]
    orig = (mod.Sun.apparent_geocentric_position, mod.true_obliquity, mod.ecliptical2equatorial, mod.nutation_longitude, mod.cos)

    class Eps(object):
        def rad(self):
            return 'eps'

    def run():
        mod.Sun.apparent_geocentric_position = staticmethod(lambda *a, **k: (Angle(0.0), Angle(0.0), 1.0))
        mod.true_obliquity = lambda *a, **k: Eps()
        mod.ecliptical2equatorial = lambda *a, **k: (Angle(A), Angle(0.0))
        mod.nutation_longitude = lambda *a, **k: Angle(P)
        mod.cos = lambda x: c
        try:
            return tail(E.JDE2000, Angle(L0))
        finally:
            (mod.Sun.apparent_geocentric_position, mod.true_obliquity, mod.ecliptical2equatorial, mod.nutation_longitude, mod.cos) = orig
    ctx, paths = core.explore(run, pre, check_div0=False, timeout_ms=20000, max_paths=400, max_seconds=300)
    t.absorb_ctx(ctx, paths)
    bd = 'mean longitude and right ascension arbitrary in [0, 360), |nutation| <= 0.01 deg, cos(eps) in [0.89, 0.94]; real arithmetic'
    Ev = L0.e - z3.RealVal('0.0057183') - A.e + P.e * c.e
    Ered = z3.If(Ev > 180, Ev - 360, z3.If(Ev < -180, Ev + 360, Ev))
    inp = lambda mo: {'kind': 'eot', 'L0': str(harness.meval(mo, L0)), 'A': str(harness.meval(mo, A))}
    for i, p in enumerate(paths):
        tag = '@p%d' % i
        t.reach += 1
        if p.kind != 'ok':
            t.ob('equation_of_time total' + tag, 'sat' if p.kind == 'exc' else 'unwind', 0, bd)
            if p.kind == 'exc':
                t.cand('C14.eot', {'kind': 'eot'}, 'exception %r' % (p.exc,))
            continue
        m, sec = p.val
        m, sec = core.lift(m).re(), core.lift(sec).re()
        V = z3.If(m >= 0, m, -m) + sec / 60
        W = 4 * z3.If(Ered >= 0, Ered, -Ered)
        tol = z3.RealVal('1/1000000')
        t.decide(ctx, p, 'equation of time (m, s) = 4 * (L0 - 0.0057183 - alpha + dpsi cos eps reduced to [-180, 180]) minutes: magnitude, sign, 0 <= s < 60' + tag,
                 z3.Or(V - W > tol, W - V > tol, sec < 0, sec >= 60, z3.And(m > 0, Ered < 0), z3.And(m < 0, Ered > 0)), 'C14.eot', inp, 'equation of time', bd,
                 timeout_ms=60000, retry=False)
    return t


def task_interpol(_):
    """times_rise_transit_set.interpol (the nested helper, cut from the current AST) on three tabulated angles of a body
    moving at most 1.5 degrees per day, wrapped into [0, 360): the interpolated angle equals Meeus 3.3 on the UNWRAPPED
    values modulo 360 -- in particular when the right ascension passes 360 -> 0 between two of the three days"""
    from symx import slicer
    t = harness.Task('interpol')
    Angle = loader.mod('Angle').Angle
    try:
        interpol, _src = slicer.nested_func('Coordinates', 'times_rise_transit_set.interpol')
    except core.EngineError as ex:
        t.ob('times_rise_transit_set.interpol found', 'unknown', 0, str(ex))
        return t
    Y1, d1, d2, n = Num.real_var('Y1'), Num.real_var('d1'), Num.real_var('d2'), Num.real_var('n')
    k2, k3 = z3.Int('k2'), z3.Int('k3')
    Y2, Y3 = Num.real_var('Y2'), Num.real_var('Y3')
    lim = z3.RealVal('1.5')
    pre = [Y1.e >= 0, Y1.e < 360, Y2.e >= 0, Y2.e < 360, Y3.e >= 0, Y3.e < 360, d1.e >= -lim, d1.e <= lim, d2.e >= -lim, d2.e <= lim,
           Y2.e == Y1.e + d1.e - 360 * z3.ToReal(k2), Y3.e == Y2.e + d2.e - 360 * z3.ToReal(k3), n.e >= -1, n.e <= 1]

    def run():
        r = interpol(n, Angle(Y1), Angle(Y2), Angle(Y3))
        return r._deg if isinstance(r, Angle) else r
    ctx, paths = core.explore(run, pre, check_div0=False, timeout_ms=20000, max_paths=400, max_seconds=300)
    t.absorb_ctx(ctx, paths)
    bd = 'three tabulated angles in [0, 360) whose unwrapped daily differences are within +-1.5 degrees; interpolating factor in [-1, 1]; real arithmetic'
    want = Y2.e + n.e * (d1.e + d2.e + n.e * (d2.e - d1.e)) / 2
    kk = z3.Int('kk')
    inp = lambda mo: {'kind': 'interpol', 'Y1': float(harness.meval(mo, Y1)), 'd1': float(harness.meval(mo, d1)), 'd2': float(harness.meval(mo, d2))}
    for i, p in enumerate(paths):
        tag = '@p%d' % i
        t.reach += 1
        if p.kind != 'ok':
            t.ob('interpol total' + tag, 'sat' if p.kind == 'exc' else 'unwind', 0, bd)
            if p.kind == 'exc':
                t.cand('C14.interpol', {'kind': 'interpol', 'Y1': 359.0, 'd1': 0.8, 'd2': 0.8}, 'exception %r' % (p.exc,))
            continue
        got = core.lift(p.val).re()
        diff = got - want
        t.decide(ctx, p, 'interpolated angle = Meeus 3.3 on the unwrapped values (mod 360)' + tag,
                 z3.And(diff != 0, diff != 360, diff != -360, diff != 720, diff != -720), 'C14.interpol', inp, 'interpolation across the 360 -> 0 wrap', bd, timeout_ms=60000, retry=False)
    return t


def dispatch(job):
    k, a = job
    return {'loop': task_loop, 'seeds': task_seeds, 'eot': task_eot, 'interpol': task_interpol}[k](a)


def main(tier):
    loader.install()
    chk = harness.Check(PID, tier)
    chk.replays = {'C14.guard': REPLAY, 'C14.loop': REPLAY, 'C14.eot': REPLAY, 'C14.interpol': REPLAY}
    chk.functions = ['Sun.get_equinox_solstice', 'Sun.equation_of_time (statements after the mean longitude)', 'Coordinates.times_rise_transit_set.interpol (nested helper)']
    chk.run(dispatch, [('loop', tg) for tg in TARGETS] + [('seeds', 0), ('eot', 0), ('interpol', 0)], 'seasons: guard, loop exit, start instants')
    chk.bounds = {'year': 'every integer', 'loop': 'exits after 1..%d evaluations of the position theory (longer runs: the same body; counted as unwinding misses)' % UNWIND}
    chk.stubs = ['Sun.apparent_geocentric_position -> uninterpreted theory: a fresh symbolic longitude per call, the epoch asked for is recorded',
                 'equation_of_time: apparent position, obliquity, ecliptical2equatorial, nutation -> arbitrary values (real Angle class kept)', 'Angle inside Sun (seasons only) -> plain value stand-in; sin -> box in [-1, 1] keyed by its argument; Epoch(number) -> stores the JDE (C02)']
    chk.outside = ['that the loop terminates, and which of the two roots 180 degrees apart it reaches (values of VSOP87 + nutation)',
                   'the spacing clauses for the RETURNED instants (decided here for the start instants of Meeus tables 27.A/B only; the total correction is a series value)',
                   'equation of time: its size (25 / 17.5 minutes) and daily change (series values) -- only the reduction to [-180, 180] and the (m, s) encoding are decided', 'sunrise/sunset, rise/transit/set (bounds on series values, sidereal time and altitude compositions)']
    chk.assumptions = ['real arithmetic', 'the Sun\'s apparent longitude changes by at most 1.02 degrees per day (used only to convert a drift between the evaluated and the returned instant into degrees)',
                       '|sin x| <= sin(e) for small e  =>  x within e of a multiple of 180 degrees (mathematical fact applied outside the solver)']
    return chk.finish()
