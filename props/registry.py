"""what MANIFEST.json says about each check (tools/mk_manifest.py regenerates the manifest from this)"""
Q_NOTE = ('Trusted: CPython evaluating the instrumented modules, z3 5.1, the proxy number classes (validated differentially against '
          'the real library on the repository\'s own test inputs at every run), the independent specification written in the harness. '
          'Float literals are taken with the decimal value written in the source (exact arithmetic); the gap to IEEE-754 is closed per '
          'discretisation site by bit-precise cut lemmas (QF_FPBV) listed in the evidence; lemmas not decided in a tier are listed as assumptions.')
CHECKS = {
 'C01': {'technique': 'symbolic execution of the real Epoch source over symbolic (year, day) per month; z3 LIA decides round trip / refusal / independent day count on every path; QF_FPBV cut lemmas tie exact arithmetic to IEEE',
         'text': 'Bounded symbolic model checking of the real code: for every year -4712..6000 and integer day 0..33 of each month, on every explored path the solver shows get_date(Epoch(y,m,d)) == (y,m,d), ValueError exactly for days outside the month, and jde() == an independently written day count (which the solver shows to be +1 per civil day incl. 4->15 Oct 1582). Anchors are ground instances. A sat answer is replayed on the unmodified library before it is reported.',
         'note': Q_NOTE + ' Outside: month names beyond the enumerated spellings, fractional days (C02), years > 6000.'},
 'C16': {'technique': 'symbolic execution of the real Epoch.dow/get_doy/doy2date/year/mean_sidereal_time over symbolic dates, day numbers and times of day; z3 LIA/LRA decides each clause against an independent day count; composition through verified summaries; QF_FPBV cut lemmas',
         'text': 'Bounded symbolic model checking of the real code: weekday = (day number + 1) mod 7 for every day number and time of day, JDE(date,time) = independent day count, get_doy = JDE difference to 1 January + 1 and doy2date its inverse for every civil date -4712..6000 (1582 excluded), year() affine-increasing in JDE with integer part the calendar year; sidereal time in [0,1) for every JDE in [0,5.4e6], rate/IAU-1982 agreement for 12 concrete day numbers with symbolic time of day, equation of the equinoxes structural and < 1.2 s.',
         'note': Q_NOTE + ' datetime.date is replaced by a model (CPython algorithms; declarative fromordinal) validated against the real module at every run. year() is explored with get_date() replaced by its verified summary. Outside: sidereal rate/IAU agreement for symbolic day numbers; IEEE rounding inside mean_sidereal_time.'},
}
NA = {
 'C09': 'both sides of every clause are values of thousand-term VSOP87/Pluto series (or of a numeric fixed-point iteration) at different symbolic epochs: no SMT encoding within reach, and stubbing the series dissolves the claim (DESIGN.md section 4)',
 'C14': 'every central clause is an equality or bound on the apparent solar longitude/altitude, i.e. on VSOP87 + nutation series values reached by iteration: not encodable; box bounds cannot prove a 1e-5 degree equality (DESIGN.md section 4)',
}
