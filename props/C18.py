"""C18 -- Earth ellipsoid quantities and surface distance satisfy their identities.

Real code executed symbolically in mode T (trig atoms, real arithmetic) with a SYMBOLIC ellipsoid (a > 0, f in [0, 0.01]):
Ellipsoid.b/e, Earth.rho_sinphi, rho_cosphi, rp, rm, linear_velocity, distance.
"""
import z3

from symx import core, loader, harness, trig
from symx.core import Num, Fr

PID = 'C18'

REPLAY = r'''
from pymeeus.Angle import Angle
from pymeeus.Earth import Earth, Ellipsoid, IAU76, WGS84
from math import sin, cos, radians, degrees, atan2, sqrt
bad = None
k = INPUTS['kind']
def ang(cs):
    return degrees(atan2(F(cs[1]), F(cs[0])))
ell = Ellipsoid(F(INPUTS.get('a', '6378137')), F(INPUTS.get('f', '1/298')), 7.292115e-05)
E = Earth(ell)
if k == 'ellipsoid':
    phi = ang(INPUTS['phi']); h = F(INPUTS.get('h', 0))
    a, f = ell._a, ell._f; b = a * (1 - f)
    rc0, rs0 = E.rho_cosphi(Angle(phi), 0.0), E.rho_sinphi(Angle(phi), 0.0)
    if abs(rc0 ** 2 + (rs0 * a / b) ** 2 - 1) > 1e-9:
        bad = 'not on the meridian ellipse at phi=%r' % phi
    elif abs(E.rp(Angle(phi)) - a * rc0) > 1e-6 * a:
        bad = 'rp != a * rho cos phi prime at phi=%r' % phi
    elif abs(E.linear_velocity(Angle(phi)) - ell._omega * E.rp(Angle(phi))) > 1e-9:
        bad = 'linear velocity'
    elif abs(E.rho_cosphi(Angle(phi), h) - rc0 - h / a * cos(radians(phi))) > 1e-12 or abs(E.rho_sinphi(Angle(phi), h) - rs0 - h / a * sin(radians(phi))) > 1e-12:
        bad = 'height term at phi=%r h=%r: %r %r' % (phi, h, E.rho_cosphi(Angle(phi), h) - rc0, E.rho_sinphi(Angle(phi), h) - rs0)
    elif abs(E.rm(Angle(0.0)) - b * b / a) > 1e-6 * a or abs(E.rm(Angle(90.0)) - a * a / b) > 1e-6 * a:
        bad = 'rm endpoints'
elif k == 'distance':
    l1, p1, l2, p2 = [ang(INPUTS[v]) for v in ('l1', 'p1', 'l2', 'p2')]
    try:
        d12 = E.distance(Angle(l1), Angle(p1), Angle(l2), Angle(p2))[0]
        d21 = E.distance(Angle(l2), Angle(p2), Angle(l1), Angle(p1))[0]
        if abs(d12 - d21) > 1e-6:
            bad = 'distance not symmetric: %r vs %r' % (d12, d21)
        if INPUTS.get('equator'):
            # along the equator the distance is a times the longitude difference (the short way round)
            dl = abs(l1 - l2) % 360.0
            dl = min(dl, 360.0 - dl)
            de = E.distance(Angle(l1), Angle(0.0), Angle(l2), Angle(0.0))[0]
            if 0.001 < dl < 179.9 and abs(de - ell._a * radians(dl)) > 1e-6 * ell._a:
                bad = 'equator: longitudes %r, %r: distance %r, a * difference %r' % (l1, l2, de, ell._a * radians(dl))
    except ZeroDivisionError as ex:
        u = (cos(radians(p1)) * cos(radians(l1)), cos(radians(p1)) * sin(radians(l1)), sin(radians(p1)))
        v = (cos(radians(p2)) * cos(radians(l2)), cos(radians(p2)) * sin(radians(l2)), sin(radians(p2)))
        dot = sum(x * y for x, y in zip(u, v))
        bad = 'distance((%r, %r), (%r, %r)) raised ZeroDivisionError (cos of the angle between the points: %r)' % (l1, p1, l2, p2, dot)
if bad:
    print('REPRODUCED %s: %s' % (SITE, bad)); sys.exit(1)
print('not reproduced'); sys.exit(0)
'''


def cs(mo, name):
    return [str(harness.meval(mo, z3.Real('c_' + name))), str(harness.meval(mo, z3.Real('s_' + name)))]


def task_ellipsoid(_):
    t = harness.Task('ellipsoid identities')
    E = loader.mod('Earth')
    Angle = loader.mod('Angle').Angle
    a, f, om, h = Num.real_var('a'), Num.real_var('f'), Num.real_var('omega'), Num.real_var('h')
    pre = trig.angle_pre('phi', -90, 90) + [z3.Real('c_phi') > 0, a.e > 0, f.e >= 0, f.e <= z3.RealVal('1/100'), om.e > 0, h.e >= -500, h.e <= 9000]

    def fn():
        phi, _ = trig.input_angle(None, 'phi', -90, 90)
        earth = E.Earth(E.Ellipsoid(a, f, om))
        A = Angle(phi)
        return (earth.rho_cosphi(A, 0.0), earth.rho_sinphi(A, 0.0), earth.rho_cosphi(A, h), earth.rho_sinphi(A, h), earth.rp(A), earth.linear_velocity(A),
                earth._ellip.b(), earth._ellip.e())
    ctx, paths = core.explore(fn, pre, trig='atoms', check_div0=False, timeout_ms=20000, max_paths=100, max_seconds=600)
    t.absorb_ctx(ctx, paths)
    cphi, sphi = z3.Real('c_phi'), z3.Real('s_phi')
    inp = lambda mo: {'kind': 'ellipsoid', 'a': str(harness.meval(mo, a)), 'f': str(harness.meval(mo, f)), 'h': str(harness.meval(mo, h)), 'phi': cs(mo, 'phi')}
    bd = 'every latitude in (-90, 90), every ellipsoid with a > 0, f in [0, 0.01], heights -500..9000 m; real arithmetic'
    for i, p in enumerate(paths):
        tag = '@p%d' % i
        if p.kind != 'ok':
            t.ob('ellipsoid functions total' + tag, 'sat' if p.kind == 'exc' else 'unwind', 0, bd)
            continue
        rc0, rs0, rch, rsh, rp, lv, b, e = [core.lift(v).re() for v in p.val]
        t.reach += 5
        q = dict(timeout_ms=60000, retry=False)
        t.decide(ctx, p, 'sea level point lies on the meridian ellipse: (rho cos)^2 + (rho sin * a/b)^2 = 1' + tag,
                 z3.Or(b != a.e * (1 - f.e), rc0 * rc0 * b * b + rs0 * rs0 * a.e * a.e != b * b), 'C18.ell', inp, 'ellipse', bd, **q)
        t.decide(ctx, p, 'parallel radius rp = a * rho cos phi\'' + tag, z3.Or(rp != a.e * rc0, e * e != 2 * f.e - f.e * f.e), 'C18.ell', inp, 'rp', bd, **q)
        t.decide(ctx, p, 'linear velocity = omega * rp' + tag, lv != om.e * rp, 'C18.ell', inp, 'velocity', bd, **q)
        t.decide(ctx, p, 'height adds h/a * (cos phi, sin phi)' + tag, z3.Or((rch - rc0) * a.e != h.e * cphi, (rsh - rs0) * a.e != h.e * sphi), 'C18.ell', inp,
                 'height term', bd, **q)
        t.decide(ctx, p, 'rho cos phi\' > 0 and rho sin phi\' has the sign of the latitude' + tag,
                 z3.Or(rc0 <= 0, z3.And(sphi > 0, rs0 <= 0, f.e < 1), z3.And(sphi < 0, rs0 >= 0)), 'C18.ell', inp, 'signs', bd, **q)
    # meridian radius of curvature at the equator and at the pole (ground latitudes, symbolic ellipsoid)
    for deg, name, want in ((0.0, 'equator', lambda: (a.e * (1 - f.e)) * (a.e * (1 - f.e)) / a.e), (90.0, 'pole', lambda: a.e * a.e / (a.e * (1 - f.e)))):
        ctx, paths = core.explore(lambda: E.Earth(E.Ellipsoid(a, f, om)).rm(Angle(deg)), [a.e > 0, f.e >= 0, f.e <= z3.RealVal('1/100')], trig='atoms', check_div0=False,
                                  timeout_ms=20000, max_paths=20)
        t.absorb_ctx(ctx, paths)
        for i, p in enumerate(paths):
            if p.kind != 'ok':
                t.ob('rm total@%s' % name, 'sat' if p.kind == 'exc' else 'unwind', 0, '')
                continue
            t.reach += 1
            t.decide(ctx, p, 'meridian radius of curvature at the %s = %s' % (name, 'b^2/a' if deg == 0 else 'a^2/b'), core.lift(p.val).re() != want(), 'C18.ell',
                     lambda mo: {'kind': 'ellipsoid', 'a': str(harness.meval(mo, a)), 'f': str(harness.meval(mo, f)), 'phi': ['1', '0']}, 'rm', 'symbolic ellipsoid', timeout_ms=60000, retry=False)
    return t


def task_distance(_):
    """distance(): (1) the quantities everything else is computed from (s, c, sin^2 F, cos^2 F, sin^2 G, cos^2 G: the
    statements up to `c = ...`, sliced from the current source) are the same for (A, B) and (B, A): symmetric;
    (2) totality: which legal point pairs make the full routine raise"""
    t = harness.Task('distance')
    E = loader.mod('Earth')
    Angle = loader.mod('Angle').Angle
    from symx import slicer
    head, _s = slicer.head_until('Earth', 'Earth.distance', 'c = cos2g * cos2lam + sin2f * sin2lam', 'self, lon1, lat1, lon2, lat2',
                                 '(s, c, sin2f, cos2f, sin2g, cos2g)')
    names = (('l1', -180, 180), ('p1', -90, 90), ('l2', -180, 180), ('p2', -90, 90))
    pre = []
    for n_, lo, hi in names:
        pre += trig.angle_pre(n_, lo, hi)

    def mk():
        return {n_: Angle(trig.input_angle(None, n_, lo, hi)[0]) for n_, lo, hi in names}

    def fn_sym():
        earth = E.Earth()
        A = mk()
        return head(earth, A['l1'], A['p1'], A['l2'], A['p2']), head(earth, A['l2'], A['p2'], A['l1'], A['p1'])
    ctx, paths = core.explore(fn_sym, pre, trig='atoms', check_div0=True, timeout_ms=20000, max_paths=100, max_seconds=600)
    t.absorb_ctx(ctx, paths)

    def inp(mo):
        r = dict(kind='distance', a='6378137', f='1000000000/298257223563', **{n_: cs(mo, n_) for n_, _lo, _hi in names})
        try:
            v = {n_: [float(Fr(x)) for x in r[n_]] for n_, _lo, _hi in names}
            u = (v['p1'][0] * v['l1'][0], v['p1'][0] * v['l1'][1], v['p1'][1])
            w = (v['p2'][0] * v['l2'][0], v['p2'][0] * v['l2'][1], v['p2'][1])
            r['dot'] = sum(x * y for x, y in zip(u, w))
        except Exception:
            r['dot'] = 0.0
        return r
    bd = 'every pair of points on the WGS84 ellipsoid; real arithmetic'
    for i, p in enumerate(paths):
        tag = '@p%d' % i
        if p.kind != 'ok':
            t.ob('distance head total' + tag, 'sat' if p.kind == 'exc' else 'unwind', 0, bd)
            continue
        h12, h21 = p.val
        t.reach += 1
        bad = z3.Or(*[core.lift(x).re() != core.lift(y).re() for x, y in zip(h12, h21)])
        t.decide(ctx, p, 'distance symmetric: its intermediate quantities (s, c, sin^2/cos^2 of F and G) are the same for (A,B) and (B,A)' + tag, bad, 'C18.dist', inp,
                 'symmetry', bd, timeout_ms=120000, retry=False)
        # the same quantities against Andoyer's definition written on the input directions (half-angle identities):
        # sin^2(lam) = (1 - cos(l1 - l2))/2,  sin^2 G = (1 - cos(p1 - p2))/2,  cos^2 F = (1 + cos(p1 + p2))/2
        cl = {n_: (z3.Real('c_' + n_), z3.Real('s_' + n_)) for n_, _lo, _hi in names}
        cosdl = cl['l1'][0] * cl['l2'][0] + cl['l1'][1] * cl['l2'][1]
        cosdp = cl['p1'][0] * cl['p2'][0] + cl['p1'][1] * cl['p2'][1]
        cossp = cl['p1'][0] * cl['p2'][0] - cl['p1'][1] * cl['p2'][1]
        s2l, c2l = (1 - cosdl) / 2, (1 + cosdl) / 2
        s2g, c2g = (1 - cosdp) / 2, (1 + cosdp) / 2
        c2f, s2f = (1 + cossp) / 2, (1 - cossp) / 2
        want_s, want_c = s2g * c2l + c2f * s2l, c2g * c2l + s2f * s2l
        t.reach += 1
        t.decide(ctx, p, 'distance: S and C are Andoyer\'s quantities of the two directions (sin^2 of HALF the longitude difference, whichever way round)' + tag,
                 z3.Or(core.lift(h12[0]).re() != want_s, core.lift(h12[1]).re() != want_c), 'C18.dist', lambda mo: dict(inp(mo), equator=1), 'Andoyer quantities', bd,
                 timeout_ms=120000, retry=False)

    def fn_tot():
        A = mk()
        return E.Earth().distance(A['l1'], A['p1'], A['l2'], A['p2'])
    ctx, paths = core.explore(fn_tot, pre, trig='atoms', check_div0=True, timeout_ms=20000, max_paths=100, max_seconds=600)
    t.absorb_ctx(ctx, paths)
    for i, p in enumerate(paths):
        tag = '@tot.p%d' % i
        t.reach += 1
        if p.kind == 'exc' and isinstance(p.exc, ZeroDivisionError):
            # in real arithmetic the divisor C vanishes for exactly antipodal points; IEEE never gets cos = 0 there, so that
            # single configuration is outside the model's reach: what must be excluded is a zero divisor for any OTHER pair
            cl = {n_: (z3.Real('c_' + n_), z3.Real('s_' + n_)) for n_, _lo, _hi in names}
            dot = (cl['p1'][0] * cl['p2'][0] * (cl['l1'][0] * cl['l2'][0] + cl['l1'][1] * cl['l2'][1]) + cl['p1'][1] * cl['p2'][1])
            r, mo, _ = core.check(ctx, p, dot > -1, timeout_ms=120000)
            if r == 'unsat':
                t.ob('distance: the divisor vanishes only for exactly antipodal points' + tag, 'unsat', 0, bd)
                t.notes.append('exactly antipodal points (real-arithmetic zero divisor, not reachable with IEEE cosines) are outside the claim')
                continue
            if r != 'sat':
                t.notes.append('distance(): whether the divisor C can vanish for non-antipodal points was answered %s; antipodal points are outside the claim' % r)
                continue
            t.ob('distance total (no exception for legal points)' + tag, 'sat', 0, bd)
            t.cand('C18.dist', inp(mo), 'raised %r' % (p.exc,))
        elif p.kind == 'exc':
            r, mo, _ = core.check(ctx, p, z3.BoolVal(True), timeout_ms=60000)
            t.ob('distance total (no exception for legal points)' + tag, 'sat', 0, bd)
            t.cand('C18.dist', inp(mo) if mo else {'kind': 'distance', 'l1': ['1', '0'], 'p1': ['1', '0'], 'l2': ['-1', '0'], 'p2': ['1', '0'], 'dot': -1.0},
                   'raised %r' % (p.exc,))
        elif p.kind == 'ok':
            d = core.lift(p.val[0])
            if d.cval() == 0:
                # the coincident-points branch: only when the points coincide (s = 0)
                t.ob('zero distance branch' + tag, 'unsat', 0, bd)
    return t


def dispatch(job):
    return {'ell': task_ellipsoid, 'dist': task_distance}[job](0)


def main(tier):
    loader.install()
    chk = harness.Check(PID, tier)
    chk.replays = {'C18.ell': REPLAY, 'C18.dist': REPLAY}
    chk.functions = ['Ellipsoid.b', 'Ellipsoid.e', 'Earth.rho_cosphi', 'Earth.rho_sinphi', 'Earth.rp', 'Earth.rm', 'Earth.linear_velocity', 'Earth.distance']
    chk.run(dispatch, ['ell', 'dist'], 'ellipsoid identities and distance (mode T)')
    chk.bounds = {'latitude': '(-90, 90) degrees (tan of the latitude is used by the code; the poles are ground instances for rm only)', 'ellipsoid': 'a > 0, f in [0, 0.01] symbolic',
                  'height': '-500..9000 m', 'distance': 'all point pairs'}
    chk.outside = ['distance = a * longitude difference on the equator, = integral of rm along a meridian, within 0.6 % of the great circle (need atan(x)/x relations)',
                   'parallax_correction / parallax_ecliptical', 'rho() (series in 2 phi, 4 phi)', 'monotonicity of rm between equator and pole']
    chk.assumptions = ['mode T: real arithmetic, sin/cos as atoms; tan(phi) finite (cos phi > 0)']
    return chk.finish()
