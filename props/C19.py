"""C19 -- Easter, Pesach and Moslem-calendar conversions follow their calendar rules.

Real code executed symbolically (mode Q): Epoch.easter, jewish_pesach, moslem2gregorian, gregorian2moslem
(+ doy2date, iint).  All oracles are integer specifications written here from the calendar definitions.
"""
import z3

from symx import core, loader, harness, cuts
from symx.core import Num, Fr
from props import spec

PID = 'C19'

SPEC_SRC = spec.SPEC_SRC + r'''
# ---- Gregorian Computus, tabular epact (Knuth, TAOCP 1.3.2 ex. 14)
def easter_gregorian(y):
    G = y % 19 + 1
    C = y // 100 + 1
    X = 3 * C // 4 - 12
    Z = (8 * C + 5) // 25 - 5
    D = 5 * y // 4 - X - 10
    E = (11 * G + 20 + Z - X) % 30
    if (E == 25 and G > 11) or E == 24:
        E += 1
    N = 44 - E
    if N < 21:
        N += 30
    N = N + 7 - ((D + N) % 7)
    return (4, N - 31) if N > 31 else (3, N)

# ---- Julian Easter: 19-year table of paschal full moons (day of March; 32.. = April), then the next Sunday
PFM = [36, 25, 44, 33, 22, 41, 30, 49, 38, 27, 46, 35, 24, 43, 32, 21, 40, 29, 48]
def easter_julian(y):
    p = PFM[y % 19]
    w = (jdn_julian(y, 3, 1) + (p - 1) + 1) % 7        # 0 = Sunday
    n = p + (7 - w)
    return (4, n - 31) if n > 31 else (3, n)

# ---- arithmetic Hebrew calendar (Dershowitz & Reingold): fixed day number (R.D.) of 1 Tishri
def heb_elapsed(H):
    months = (235 * H - 234) // 19
    parts = 12084 + 13753 * months
    day = 29 * months + parts // 25920
    if (3 * (day + 1)) % 7 < 3:
        day += 1
    return day
def heb_new_year(H):
    ny0, ny1, ny2 = heb_elapsed(H - 1), heb_elapsed(H), heb_elapsed(H + 1)
    delay = 2 if ny2 - ny1 == 356 else (1 if ny1 - ny0 == 382 else 0)
    return -1373427 + ny1 + delay
def pesach_jdn(y):
    """JDN (noon) of 15 Nisan falling in civil year y: 163 days before the following 1 Tishri"""
    return heb_new_year(y + 3761) - 163 + 1721425

# ---- arithmetic (tabular) Islamic calendar, epoch 16 July 622 Julian, leap years (11y + 14) mod 30 < 11
def isl_leap(h):
    return (11 * h + 14) % 30 < 11
def isl_month_len(h, m):
    if m == 12:
        return 30 if isl_leap(h) else 29
    return 30 if m % 2 == 1 else 29
def isl_jdn(h, m, d):
    return d + 29 * (m - 1) + m // 2 + (h - 1) * 354 + (3 + 11 * h) // 30 + 227015 - 1 + 1721425
'''
exec(SPEC_SRC)


# ---------------------------------------------------------------- z3 versions
def z_easter_gregorian(y):
    G = y % 19 + 1
    C = y / 100 + 1
    X = 3 * C / 4 - 12
    Z = (8 * C + 5) / 25 - 5
    D = 5 * y / 4 - X - 10
    E0 = (11 * G + 20 + Z - X) % 30
    E = z3.If(z3.Or(z3.And(E0 == 25, G > 11), E0 == 24), E0 + 1, E0)
    N0 = 44 - E
    N1 = z3.If(N0 < 21, N0 + 30, N0)
    return N1 + 7 - ((D + N1) % 7)         # day of March


def z_easter_julian(y):
    g = y % 19
    p = z3.IntVal(PFM[18])
    for i in range(17, -1, -1):
        p = z3.If(g == i, PFM[i], p)
    w = (spec.z_jdn(y, 3, 1, False) + (p - 1) + 1) % 7
    return p + (7 - w)


def z_heb_elapsed(H):
    months = (235 * H - 234) / 19
    parts = 12084 + 13753 * months
    day = 29 * months + parts / 25920
    return z3.If((3 * (day + 1)) % 7 < 3, day + 1, day)


def z_pesach_jdn(y):
    H = y + 3761
    ny0, ny1, ny2 = z_heb_elapsed(H - 1), z_heb_elapsed(H), z_heb_elapsed(H + 1)
    delay = z3.If(ny2 - ny1 == 356, 2, z3.If(ny1 - ny0 == 382, 1, 0))
    return -1373427 + ny1 + delay - 163 + 1721425


def z_isl_leap(h):
    return (11 * h + 14) % 30 < 11


def z_isl_month_len(h, m):
    if isinstance(m, int):
        if m == 12:
            return z3.If(z_isl_leap(h), 30, 29)
        return z3.IntVal(30 if m % 2 == 1 else 29)
    return z3.If(m == 12, z3.If(z_isl_leap(h), 30, 29), z3.If(m % 2 == 1, 30, 29))


def z_isl_jdn(h, m, d):
    m = spec.zI(m)
    return spec.zI(d) + 29 * (m - 1) + m / 2 + (h - 1) * 354 + (3 + 11 * h) / 30 + 227015 - 1 + 1721425


REPLAY = SPEC_SRC + r'''
from pymeeus.Epoch import Epoch
bad = None
if SITE == 'C19.easter':
    y = INPUTS['y']
    want = easter_gregorian(y) if y >= 1583 else easter_julian(y)
    try:
        got = Epoch.easter(y)
    except Exception as ex:
        got = ex
    if isinstance(got, Exception) or tuple(got) != want:
        bad = 'easter(%d) = %r, Computus gives %r' % (y, got, want)
    else:
        m, d = got
        j = jdn_gregorian(y, m, d) if y >= 1583 else jdn_julian(y, m, d)
        if (j + 1) % 7 != 0 or not ((m == 3 and d >= 22) or (m == 4 and d <= 25)):
            bad = 'easter(%d) = %r is not a Sunday in 22 March..25 April' % (y, got)
elif SITE == 'C19.pesach':
    y = INPUTS['y']
    try:
        got = Epoch.jewish_pesach(y)
    except Exception as ex:
        got = ex
    ok = not isinstance(got, Exception)
    if ok:
        m, d = got
        j = jdn_gregorian(y, m, d) if y >= 1583 else jdn_julian(y, m, d)
        ok = (j == pesach_jdn(y)) and (j + 1) % 7 in (0, 2, 4, 6)
    if not ok:
        bad = 'jewish_pesach(%d) = %r, 15 Nisan of the arithmetic Hebrew calendar is JDN %d' % (y, got, pesach_jdn(y))
elif SITE == 'C19.m2g':
    h, m, d = INPUTS['h'], INPUTS['m'], INPUTS['d']
    try:
        got = Epoch.moslem2gregorian(h, m, d)
    except Exception as ex:
        got = ex
    ok = not isinstance(got, Exception)
    if ok:
        y, mm, dd = got
        ok = dd == int(dd) and valid_civil(y, int(mm), int(dd)) and jdn_civil(y, int(mm), int(dd)) == isl_jdn(h, m, d)
    if not ok:
        bad = 'moslem2gregorian(%d,%d,%d) = %r, tabular Islamic calendar gives JDN %d' % (h, m, d, got, isl_jdn(h, m, d))
elif SITE == 'C19.g2m':
    y, m, d = INPUTS['y'], INPUTS['m'], INPUTS['d']
    try:
        got = Epoch.gregorian2moslem(y, m, d)
    except Exception as ex:
        got = ex
    ok = not isinstance(got, Exception)
    if ok:
        h, mm, dd = got
        ok = 1 <= mm <= 12 and 1 <= dd <= isl_month_len(h, mm) and isl_jdn(h, mm, dd) == jdn_civil(y, m, d)
    if not ok:
        bad = 'gregorian2moslem(%d,%d,%d) = %r' % (y, m, d, got)
if bad:
    print('REPRODUCED %s: %s' % (SITE, bad)); sys.exit(1)
print('not reproduced'); sys.exit(0)
'''


def task_easter(arg):
    c_lo, c_hi = arg
    t = harness.Task('easter centuries %d..%d' % (c_lo, c_hi))
    Epoch = loader.mod('Epoch').Epoch
    for c in range(c_lo, c_hi + 1):
        r = Num.int_var('r', 0, 99)
        lo = max(100 * c, -4712)
        y = Num.const(100 * c) + r
        pre = [r.n >= 0, r.n <= 99, y.n >= -4712, y.n <= 10000]
        ctx, paths = core.explore(lambda: Epoch.easter(y), pre, track_sites=(c in (15, 16, 20, 99)))
        t.absorb_ctx(ctx, paths)
        bound = 'years %d..%d (century fixed, year in century symbolic)' % (100 * c, 100 * c + 99)

        def inp(mo, c=c, r=r):
            return {'y': 100 * c + harness.meval(mo, r)}
        for i, p in enumerate(paths):
            tag = '@c%d.p%d' % (c, i)
            if p.kind != 'ok':
                rr, mo, _ = core.check(ctx, p, z3.BoolVal(True))
                t.ob('easter total' + tag, 'sat', 0, bound)
                t.cand('C19.easter', inp(mo) if mo else {'y': 100 * c + 50}, 'raised %r' % (p.exc,))
                continue
            mm, dd = core.lift(p.val[0]), core.lift(p.val[1])
            n = (mm - 3) * 31 + dd                     # day of March
            greg = y.n >= 1583
            want = z3.If(greg, z_easter_gregorian(y.n), z_easter_julian(y.n))
            j = z3.If(greg, spec.z_jdn(y.n, 3, 1, True), spec.z_jdn(y.n, 3, 1, False)) + n.ie() - 1
            t.reach += 2
            t.decide(ctx, p, 'Easter = tabular Computus (Gregorian from 1583, Julian table before)' + tag,
                     z3.Or(n.ie() != want, mm.ie() < 3, mm.ie() > 4, z3.And(mm.ie() == 3, dd.ie() > 31), dd.ie() < 1),
                     'C19.easter', inp, 'date', bound)
            t.decide(ctx, p, 'Easter is a Sunday in 22 March..25 April' + tag,
                     z3.Or((j + 1) % 7 != 0, n.ie() < 22, n.ie() > 56), 'C19.easter', inp, 'Sunday/window', bound)
        if c in (15, 16, 20, 99):
            t.sites = (getattr(t, 'sites', None) or []) + cuts.collect(ctx, paths)
    return t


def task_pesach(arg):
    lo, hi = arg
    t = harness.Task('pesach %d..%d' % (lo, hi))
    Epoch = loader.mod('Epoch').Epoch
    y = Num.int_var('y', lo, hi)
    pre = [y.n >= lo, y.n <= hi]
    ctx, paths = core.explore(lambda: Epoch.jewish_pesach(y), pre, track_sites=(lo in (1, 1576, 2001)), timeout_ms=60000)
    t.absorb_ctx(ctx, paths)
    bound = 'years %d..%d' % (lo, hi)

    def inp(mo):
        return {'y': harness.meval(mo, y)}
    for i, p in enumerate(paths):
        tag = '@%d.p%d' % (lo, i)
        if p.kind != 'ok':
            rr, mo, _ = core.check(ctx, p, z3.BoolVal(True))
            t.ob('pesach total' + tag, 'sat', 0, bound)
            t.cand('C19.pesach', inp(mo) if mo else {'y': lo}, 'raised %r' % (p.exc,))
            continue
        mm, dd = core.lift(p.val[0]), core.lift(p.val[1])
        n = (mm - 3) * 31 + dd
        j = z3.If(y.n >= 1583, spec.z_jdn(y.n, 3, 1, True), spec.z_jdn(y.n, 3, 1, False)) + n.ie() - 1
        t.reach += 2
        t.decide(ctx, p, 'Pesach = 15 Nisan of the arithmetic Hebrew calendar (163 days before 1 Tishri)' + tag,
                 z3.Or(j != z_pesach_jdn(y.n), mm.ie() < 3, mm.ie() > 4, dd.ie() < 1, z3.And(mm.ie() == 3, dd.ie() > 31), z3.And(mm.ie() == 4, dd.ie() > 30)),
                 'C19.pesach', inp, 'date', bound, timeout_ms=120000)
        wd = (j + 1) % 7
        t.decide(ctx, p, 'Pesach falls on Sunday, Tuesday, Thursday or Saturday' + tag,
                 z3.Not(z3.Or(wd == 0, wd == 2, wd == 4, wd == 6)), 'C19.pesach', inp, 'weekday', bound, timeout_ms=120000)
    if lo in (1, 1576, 2001):
        t.sites = cuts.collect(ctx, paths)
    return t


def task_m2g(arg):
    m, lo, hi = arg
    t = harness.Task('moslem2gregorian month %d AH %d..%d' % (m, lo, hi))
    Epoch = loader.mod('Epoch').Epoch
    h = Num.int_var('h', lo, hi)
    d = Num.int_var('d', 1, 30)
    pre = [h.n >= lo, h.n <= hi, d.n >= 1, d.n <= z_isl_month_len(h.n, m)]
    ctx, paths = core.explore(lambda: Epoch.moslem2gregorian(h, m, d), pre, track_sites=(lo == 1 and m == 1), timeout_ms=60000, max_paths=3000)
    t.absorb_ctx(ctx, paths)
    bound = 'AH %d..%d, month %d, every day of the month' % (lo, hi, m)

    def inp(mo):
        return {'h': harness.meval(mo, h), 'm': m, 'd': harness.meval(mo, d)}
    for i, p in enumerate(paths):
        tag = '@m%d.%d.p%d' % (m, lo, i)
        if p.kind != 'ok':
            rr, mo, _ = core.check(ctx, p, z3.BoolVal(True), timeout_ms=120000)
            t.ob('moslem2gregorian total' + tag, 'sat', 0, bound)
            t.cand('C19.m2g', inp(mo) if mo else {'h': lo, 'm': m, 'd': 1}, 'raised %r' % (p.exc,))
            continue
        yy, mm, dd = [core.lift(v) for v in p.val]
        mc = mm.cval()
        msym = int(mc) if mc is not None else mm.ie()
        di = dd.floor().ie()
        t.reach += 1
        bad = z3.Or(z3.Not(spec.z_valid_civil(yy.ie(), msym, di)), (dd != dd.floor()).e,
                    spec.z_jdn_civil(yy.ie(), msym, di) != z_isl_jdn(h.n, m, d.n))
        t.decide(ctx, p, 'moslem2gregorian = civil date of the tabular Islamic day' + tag, bad, 'C19.m2g', inp, 'date', bound, timeout_ms=120000)
    if lo == 1 and m == 1:
        t.sites = cuts.collect(ctx, paths)
    return t


def task_g2m(arg):
    m, lo, hi = arg
    t = harness.Task('gregorian2moslem month %d years %d..%d' % (m, lo, hi))
    Epoch = loader.mod('Epoch').Epoch
    y = Num.int_var('y', lo, hi)
    d = Num.int_var('d', 1, 31)
    pre = [y.n >= lo, y.n <= hi, spec.z_valid_civil(y.n, m, d.n), spec.z_jdn_civil(y.n, m, d.n) >= 1948440]
    ctx, paths = core.explore(lambda: Epoch.gregorian2moslem(y, m, d), pre, track_sites=(lo == 622 and m == 7), timeout_ms=60000, max_paths=3000)
    t.absorb_ctx(ctx, paths)
    bound = 'civil years %d..%d (from 622-07-16), month %d, every day' % (lo, hi, m)

    def inp(mo):
        return {'y': harness.meval(mo, y), 'm': m, 'd': harness.meval(mo, d)}
    for i, p in enumerate(paths):
        tag = '@m%d.%d.p%d' % (m, lo, i)
        if p.kind != 'ok':
            rr, mo, _ = core.check(ctx, p, z3.BoolVal(True), timeout_ms=120000)
            t.ob('gregorian2moslem total' + tag, 'sat', 0, bound)
            t.cand('C19.g2m', inp(mo) if mo else {'y': lo, 'm': m, 'd': 1}, 'raised %r' % (p.exc,))
            continue
        hh, mm, dd = [core.lift(v) for v in p.val]
        mc = mm.cval()
        msym = int(mc) if mc is not None else mm.ie()
        t.reach += 1
        bad = z3.Or(spec.zI(msym) < 1, spec.zI(msym) > 12, dd.ie() < 1, dd.ie() > z_isl_month_len(hh.ie(), msym),
                    z_isl_jdn(hh.ie(), msym, dd.ie()) != spec.z_jdn_civil(y.n, m, d.n))
        t.decide(ctx, p, 'gregorian2moslem = tabular Islamic date of the civil day' + tag, bad, 'C19.g2m', inp, 'date', bound, timeout_ms=120000)
    if lo == 622 and m == 7:
        t.sites = cuts.collect(ctx, paths)
    return t


def task_spec(_):
    """lemmas on the specifications themselves: the Islamic day count is a bijection (consecutive dates are
    consecutive days; months 29/30, years 354/355), so agreement of both directions with it gives the round trip"""
    t = harness.Task('spec')
    import time
    h, d = z3.Ints('h d')
    for m in range(1, 13):
        s = z3.Solver()
        s.add(h >= 1, h <= 2500, d >= 1, d <= z_isl_month_len(h, m))
        last = d == z_isl_month_len(h, m)
        nxt = z3.If(last, z_isl_jdn(h, m + 1, 1) if m < 12 else z_isl_jdn(h + 1, 1, 1), z_isl_jdn(h, m, d + 1))
        s.add(nxt - z_isl_jdn(h, m, d) != 1)
        t0 = time.time()
        t.ob('spec: consecutive Islamic dates are consecutive days (month %d)' % m, str(s.check()), time.time() - t0, 'AH 1..2500')
        t.reach += 1
    s = z3.Solver()
    L = z_isl_jdn(h + 1, 1, 1) - z_isl_jdn(h, 1, 1)
    s.add(h >= 1, h <= 2500, z3.Not(z3.Or(L == 354, L == 355)))
    t.ob('spec: Islamic years have 354 or 355 days', str(s.check()), 0, 'AH 1..2500')
    s = z3.Solver()
    s.add(z_isl_jdn(z3.IntVal(1), 1, 1) != spec.z_jdn(622, 7, 16, False))
    t.ob('spec: 1 Muharram AH 1 = 16 July 622 (Julian)', str(s.check()), 0, 'ground')
    t.reach += 2
    return t


def main(tier):
    loader.install()
    chk = harness.Check(PID, tier)
    chk.replays = {k: REPLAY for k in ('C19.easter', 'C19.pesach', 'C19.m2g', 'C19.g2m')}
    chk.functions = ['Epoch.easter', 'Epoch.jewish_pesach', 'Epoch.moslem2gregorian', 'Epoch.gregorian2moslem', 'Epoch.doy2date', 'Epoch.is_leap', 'base.iint']
    ns = {'Epoch': loader.mod('Epoch').Epoch}
    chk.diff([('lambda y: Epoch.easter(y)', [1991]), ('lambda y: Epoch.easter(y)', [1954]), ('lambda y: Epoch.easter(y)', [179]),
              ('lambda y: Epoch.easter(y)', [1243]), ('lambda y: Epoch.jewish_pesach(y)', [1990]),
              ('lambda h,m,d: Epoch.moslem2gregorian(h,m,d)', [1421, 1, 1]), ('lambda y,m,d: Epoch.gregorian2moslem(y,m,d)', [1991, 8, 13])], ns)
    quick = tier == 'quick'
    # Easter: every year -4712..10000, one exploration per century (the century is a finite case split)
    cents = list(range(-48, 101))
    per = 10
    groups = [(cents[i], cents[min(i + per, len(cents)) - 1]) for i in range(0, len(cents), per)]
    ts = []
    ts += chk.run(task_easter, groups, 'Easter')
    import random
    rnd = random.Random(chk.seed)
    if quick:
        # quick tier: fixed windows around the calendar reform, the present and both ends, plus seed-chosen ones
        pes = [(1, 50), (1551, 1625), (1976, 2050), (2951, 3000)] + [(a, a + 24) for a in (rnd.randrange(51, 1500), rnd.randrange(1626, 1950), rnd.randrange(2051, 2925))]
        pes_items = [(a, min(a + 24, hi)) for (lo, hi) in pes for a in range(lo, hi + 1, 25)]
        m2g_win = [(1, 60), (530, 560), (960, 1020), (1420, 1480), (2440, 2500)]
        m2g_items = [(m, lo, hi) for (lo, hi) in m2g_win for m in range(1, 13)]
        g2m_win = [(622, 660), (1575, 1600), (2000, 2030), (2975, 3000)]
        g2m_items = [(m, lo, hi) for (lo, hi) in g2m_win for m in range(1, 13)]
        chk.bounds = {'easter': 'every year -4712..10000', 'pesach (quick tier)': 'years in the windows %s' % pes,
                      'moslem2gregorian (quick tier)': 'every date of the AH windows %s' % m2g_win, 'gregorian2moslem (quick tier)': 'every civil date of the year windows %s' % g2m_win}
    else:
        pes_items = [(a, min(a + 24, 3000)) for a in range(1, 3001, 25)]
        m2g_items = [(m, a, min(a + 99, 2500)) for a in range(1, 2501, 100) for m in range(1, 13)]
        g2m_items = [(m, a, min(a + 249, 3000)) for a in range(622, 3001, 250) for m in range(1, 13)]
        chk.bounds = {'easter': 'every year -4712..10000', 'pesach': 'every year 1..3000', 'moslem2gregorian': 'every date of AH 1..2500',
                      'gregorian2moslem': 'every civil date 622-07-16..3000-12-31'}
    ts += chk.run(task_pesach, pes_items, 'Pesach')
    ts += chk.run(task_m2g, m2g_items, 'Moslem -> civil')
    ts += chk.run(task_g2m, g2m_items, 'civil -> Moslem')
    chk.run(task_spec, [0], 'specification lemmas')
    chk.outside = ['non-integer and ill-typed arguments (C20)']
    chk.assumptions = ['mode Q with cut lemmas at sampled blocks (coverage.cut_lemmas); decimal constants of Gauss\' Pesach formula taken as written']
    cuts.discharge(chk, ts, tier)
    return chk.finish()
