"""C01 -- calendar date <-> Julian Day is an exact bijection on civil days.

Real code executed symbolically (mode Q): Epoch.__init__/set/_check_values/get_month/is_leap/
is_julian/_compute_jde/get_date/jde/mjd and base.iint, for symbolic (year, day) and each month.
"""
import z3

from symx import core, loader, harness, cuts
from symx.core import Num
from props import spec

PID = 'C01'
YMIN, YMAX = -4712, 6000

MONTHS_SHORT = ['Jan', 'Feb', 'Mar', 'Apr', 'May', 'Jun', 'Jul', 'Aug', 'Sep', 'Oct', 'Nov', 'Dec']
MONTHS_LONG = ['January', 'February', 'March', 'April', 'May', 'June', 'July', 'August', 'September',
               'October', 'November', 'December']


def spellings(m):
    out = []
    for nm in (MONTHS_SHORT[m - 1], MONTHS_LONG[m - 1]):
        for v in (nm, nm.lower(), nm.upper(), ' ' + nm + ' ', nm.swapcase()):
            if v not in out:
                out.append(v)
    return out


REPLAY = spec.SPEC_SRC + r'''
from pymeeus.Epoch import Epoch
y, m, d = INPUTS['y'], INPUTS['m'], INPUTS['d']
mform = INPUTS.get('month_form', m)
bad = None
try:
    e = Epoch(y, mform, d)
except ValueError as ex:
    e = None
    if valid_civil(y, m, d):
        bad = 'valid civil date refused: %r' % (ex,)
except Exception as ex:
    e = None
    bad = 'unexpected exception %r' % (ex,)
if e is not None:
    if not (1 <= d <= month_len(y, m)):
        bad = 'day outside the month accepted: jde=%r' % (e.jde(),)
    elif valid_civil(y, m, d):
        got = e.get_date()
        if tuple(got) != (y, m, d) or not isinstance(got[0], int) or not isinstance(got[1], int):
            bad = 'get_date() = %r' % (got,)
        elif e.jde() != jdn_civil(y, m, d) - 0.5:
            bad = 'jde() = %r, independent day count gives %r' % (e.jde(), jdn_civil(y, m, d) - 0.5)
        else:
            ny, nm, nd = next_civil(y, m, d)
            if Epoch(ny, nm, nd).jde() - e.jde() != 1.0:
                bad = 'next civil day %r is %r days later' % ((ny, nm, nd), Epoch(ny, nm, nd).jde() - e.jde())
            if abs(e.mjd() - (e.jde() - 2400000.5)) > 0:
                bad = 'mjd() inconsistent'
if bad:
    print('REPRODUCED %s: Epoch(%r, %r, %r): %s' % (SITE, y, mform, d, bad)); sys.exit(1)
print('not reproduced'); sys.exit(0)
'''


def task_month(arg):
    m, mform, lo, hi, track = arg
    t = harness.Task('month=%r form=%r years %d..%d' % (m, mform, lo, hi))
    Epoch = loader.mod('Epoch').Epoch
    y = Num.int_var('y', lo, hi)
    d = Num.int_var('d', 0, 33)
    pre = [y.n >= lo, y.n <= hi, d.n >= 0, d.n <= 33,
           z3.Not(z3.And(y.n == 1582, m == 10, d.n >= 5, d.n <= 14))]

    def fn():
        e = Epoch(y, mform, d)
        return e.jde(), e.get_date(), e.mjd()

    ctx, paths = core.explore(fn, pre, track_sites=track)
    t.absorb_ctx(ctx, paths)
    valid = spec.z_valid_civil(y.n, m, d.n)
    inrange = z3.And(d.n >= 1, d.n <= spec.z_month_len(y.n, m))

    def inp(model):
        r = {'y': harness.meval(model, y), 'm': m, 'd': harness.meval(model, d)}
        if mform != m:
            r['month_form'] = mform
        return r

    bound = 'year %d..%d, month %d, integer day 0..33' % (lo, hi, m)
    for i, p in enumerate(paths):
        tag = '@m%d.p%d' % (m, i)
        if p.kind == 'exc':
            if not isinstance(p.exc, ValueError):
                # e.g. UnboundLocalError on the branch `e >= 16` of get_date: is that branch reachable at all?
                r, mo, secs = core.check(ctx, p, z3.BoolVal(True), timeout_ms=600000)
                if r == 'unsat':
                    t.ob('non-ValueError exception path is unreachable' + tag, 'unsat', secs, bound)
                    continue
                if r != 'sat':
                    t.ob('non-ValueError exception path is unreachable' + tag, 'unknown', secs, bound)
                    continue
                t.cand('C01.exception', inp(mo), 'unexpected %r' % (p.exc,))
                t.ob('exception-class' + tag, 'sat', 0, bound)
                continue
            t.reach += 1
            t.decide(ctx, p, 'refuses-only-invalid-days' + tag, valid, 'C01.refuse', inp,
                     'a day the calendar has is refused', bound)
        elif p.kind == 'ok':
            jde, (yy, mm, dd), mjd = p.val
            t.reach += 4
            t.decide(ctx, p, 'accepts-only-days-in-month' + tag, z3.Not(inrange), 'C01.accept', inp,
                     'a day number outside the month is accepted', bound)
            rt_bad = z3.Or((core.lift(yy) != y).e, (core.lift(mm) != m).e, (core.lift(dd) != d).e)
            t.decide(ctx, p, 'date->JDE->date identity' + tag, rt_bad, 'C01.roundtrip', inp,
                     'get_date() does not return the date given', bound)
            ty_bad = not (core.s_isinstance(yy, int) and core.s_isinstance(mm, int))
            t.ob('year/month returned as int' + tag, 'sat' if ty_bad else 'unsat', 0, bound)
            jd = core.lift(jde)
            # independent day count: JDE at 0h = JDN - 1/2
            dc_bad = (2 * spec.z_jdn_civil(y.n, m, d.n) - 1) * jd.d != 2 * jd.n
            t.decide(ctx, p, 'JDE equals independent day count' + tag, dc_bad, 'C01.daycount', inp,
                     'jde() differs from the independent day count', bound)
            mj = core.lift(mjd) - (jd - Num.const(core.Fr(24000005, 10)))
            t.decide(ctx, p, 'mjd = jde - 2400000.5' + tag, mj.n != 0, 'C01.daycount', inp, 'mjd()', bound)
            if i < 2:
                r, mo, _ = core.check(ctx, p, z3.BoolVal(True))
                if mo is not None:
                    t.samples.append({'path': 'month %d path %d (%d decisions)' % (m, i, p.decisions),
                                      'reach_witness': inp(mo), 'outcome': 'date returned'})
        else:
            t.ob('unwinding' + tag, 'unwind', 0, bound)
    t.sites = cuts.collect(ctx, paths)
    return t


def task_spec(_):
    """lemmas about the independent specification itself (no library code): consecutive civil days are
    one apart, so 'JDE = day count' on every day gives 'consecutive dates are exactly 1.0 apart'."""
    t = harness.Task('spec')
    y, d = z3.Ints('y d')
    for m in range(1, 13):
        s = z3.Solver()
        s.add(y >= YMIN, y <= YMAX, spec.z_valid_civil(y, m, d))
        last = d == spec.z_month_len(y, m)
        if m == 12:
            nxt = z3.If(last, spec.z_jdn_civil(y + 1, 1, 1), spec.z_jdn_civil(y, m, d + 1))
        else:
            nxt = z3.If(last, spec.z_jdn_civil(y, m + 1, 1), spec.z_jdn_civil(y, m, d + 1))
        if m == 10:
            nxt = z3.If(z3.And(y == 1582, d == 4), spec.z_jdn_civil(1582, 10, 15), nxt)
        s.add(nxt - spec.z_jdn_civil(y, m, d) != 1)
        import time
        t0 = time.time()
        r = str(s.check())
        t.ob('spec: next civil day is +1 (month %d)' % m, r, time.time() - t0, 'year %d..%d' % (YMIN, YMAX))
        t.reach += 1
    return t


def anchors_and_names(chk):
    """ground instances, run through the instrumented code with symbolic constants"""
    Epoch = loader.mod('Epoch').Epoch
    t = harness.Task('anchors')
    cases = [((-4712, 1, 1.5), 0.0, 'jde'), ((1858, 11, 17), 0.0, 'mjd'), ((2000, 1, 1.5), 2451545.0, 'jde')]
    for (yy, mm, dd), want, what in cases:
        def fn():
            e = Epoch(Num.const(yy), mm, Num.const(dd))
            return e.jde() if what == 'jde' else e.mjd()
        ctx, paths = core.explore(fn, [])
        v = core.lift(paths[0].val).cval() if paths and paths[0].kind == 'ok' else None
        ok = v is not None and v == core.Fr(want)
        t.ob('anchor %s(%s)=%s' % (what, (yy, mm, dd), want), 'unsat' if ok else 'sat', 0, 'ground instance')
        t.reach += 1
        if not ok:
            t.cand('C01.anchor', {'y': yy, 'm': mm, 'd': dd, 'want': want, 'what': what}, 'anchor value')
    n = 0
    for m in range(1, 13):
        for sp in spellings(m) + [float(m)]:
            try:
                got = Epoch.get_month(sp)
            except Exception as e:
                got = repr(e)
            ok = (got == m) and isinstance(got, int)
            n += 1
            t.reach += 1
            if not ok:
                t.ob('get_month(%r)==%d' % (sp, m), 'sat', 0, 'enumerated spelling')
                t.cand('C01.roundtrip', {'y': 2001, 'm': m, 'd': 1, 'month_form': sp}, 'month spelling %r -> %r' % (sp, got))
    t.ob('get_month(spelling)==number for every enumerated spelling', 'unsat', 0, '12 months x 10 spellings + float', n=n)
    return t


def main(tier):
    loader.install()
    chk = harness.Check(PID, tier)
    chk.replays = {k: REPLAY for k in ('C01.refuse', 'C01.accept', 'C01.roundtrip', 'C01.daycount', 'C01.exception')}
    chk.replays['C01.anchor'] = r'''
from pymeeus.Epoch import Epoch
e = Epoch(INPUTS['y'], INPUTS['m'], INPUTS['d'])
v = e.jde() if INPUTS['what'] == 'jde' else e.mjd()
if v != INPUTS['want']:
    print('REPRODUCED anchor', v); sys.exit(1)
sys.exit(0)
'''
    chk.functions = ['Epoch.__init__', 'Epoch.set', 'Epoch._check_values', 'Epoch.get_month', 'Epoch.is_leap',
                     'Epoch.is_julian', 'Epoch._compute_jde', 'Epoch.get_date', 'Epoch.jde', 'Epoch.mjd', 'base.iint']
    chk.bounds = {'year': [YMIN, YMAX], 'month': 'each of 1..12 (enumerated), given as number; one name spelling per month '
                  'end-to-end and every enumerated spelling through get_month', 'day': 'integer 0..33 (symbolic)',
                  'excluded': '5..14 Oct 1582 (days the calendar does not have; the constructor accepts them - noted, not demanded)'}
    chk.outside = ['month names as arbitrary strings (only the enumerated spellings)', 'fractional days (C02)',
                   'years above 6000']
    chk.assumptions = ['mode Q: float literals enter with the decimal value written in the source; the gap to IEEE-754 '
                       'execution is closed by the cut lemmas listed under coverage.cut_lemmas (those marked proved)']
    # differential validation of the executor on the repository's own test/doctest inputs
    ns = {'Epoch': loader.mod('Epoch').Epoch}
    chk.diff([('lambda y,m,d: Epoch(y,m,d).jde()', [1987, 6, 19.5]), ('lambda y,m,d: Epoch(y,m,d).jde()', [-1000, 2, 29.0]),
              ('lambda y,m,d: Epoch(y,m,d).jde()', [1600, 12, 31]), ('lambda y,m,d: Epoch(y,m,d).jde()', [333, 1, 27.5]),
              ('lambda y,m,d: Epoch(y,m,d).jde()', [-4712, 1, 1.5]), ('lambda y,m,d: Epoch(y,m,d).jde()', [1582, 10, 15]),
              ('lambda j: Epoch(j).get_date()', [2436116.31]), ('lambda j: Epoch(j).get_date()', [1842713.0]),
              ('lambda j: Epoch(j).get_date()', [1507900.13]), ('lambda j: Epoch(j).get_date()', [2299160.5]),
              ('lambda y,m,d: Epoch(y,m,d).mjd()', [1858, 11, 17]),
              ('lambda y,m,d: Epoch(y,m,d).jde()', [2023, 2, 29])], ns)
    track = True
    items = [(m, m, YMIN, YMAX, track) for m in range(1, 13)]
    # one month-name spelling per month end to end (which one rotates with the seed)
    for m in range(1, 13):
        sp = spellings(m)
        if tier == 'thorough':
            items.append((m, sp[(chk.seed + m) % len(sp)], YMIN, YMAX, False))
        else:
            items.append((m, sp[(chk.seed + m) % len(sp)], 1500, 2100, False))
    if tier == 'thorough':
        for m in range(1, 13):
            for sp in spellings(m)[:4]:
                if (m, sp, YMIN, YMAX, False) not in items:
                    items.append((m, sp, YMIN, YMAX, False))
    ts = chk.run(task_month, items[:12], 'date<->JDE per month (month as number)')
    ts += chk.run(task_month, items[12:], 'date<->JDE per month (month by name)')
    chk.run(task_spec, [0], 'specification lemmas')
    chk.add_tasks([anchors_and_names(chk)])
    cuts.discharge(chk, ts, tier)
    return chk.finish()
