import z3, time
def fl(num, den):  # floor(num/den) for int exprs, den positive const
    return num / den   # z3 Int div is floor for positive divisor
y, m, d = z3.Ints('y m d')
def is_julian(y, m, d):
    return z3.Or(y < 1582, z3.And(y == 1582, m < 10), z3.And(y == 1582, m == 10, d < 5))
def compute_jde2(y, m, d):
    # returns 2*jde as Int (d integer)
    y2 = z3.If(m <= 2, y - 1, y); m2 = z3.If(m <= 2, m + 12, m)
    a = fl(y2, 100)
    b = z3.If(is_julian(y2, m2, d), 0, 2 - a + fl(a, 4))
    # iint(365.25*(y+4716)) = floor(1461*(y+4716)/4); iint(30.6001*(m+1)) = floor(306001*(m+1)/10000)
    return 2 * (fl(1461 * (y2 + 4716), 4) + fl(306001 * (m2 + 1), 10000) + d + b) - 3049
def get_date(jde2):
    # jd = jde + .5 ; z = floor(jd); integer-day case f=0
    z = fl(jde2 + 1, 2)
    alpha = fl(4 * z - 7468865, 146097)
    a = z3.If(z < 2299161, z, z + 1 + alpha - fl(alpha, 4))
    b = a + 1524
    c = fl(20 * b - 2442, 7305)
    dd = fl(1461 * c, 4)
    e = fl(10000 * (b - dd), 306001)
    day = b - dd - fl(306001 * e, 10000)
    month = z3.If(e < 14, e - 1, e - 13)
    year = z3.If(month > 2, c - 4716, c - 4715)
    return year, month, day
def is_leap(y):
    return z3.If(y >= 1582, z3.And(y % 4 == 0, z3.Or(y % 100 != 0, y % 400 == 0)), z3.If(y >= 0, y, -y) % 4 == 0)
def mlen(y, m):
    return z3.If(m == 2, z3.If(is_leap(y), 29, 28), z3.If(z3.Or(m == 4, m == 6, m == 9, m == 11), 30, 31))
valid = z3.And(y >= -4712, y <= 6000, m >= 1, m <= 12, d >= 1, d <= mlen(y, m),
               z3.Not(z3.And(y == 1582, m == 10, d >= 5, d <= 14)))
s = z3.Solver()
yy, mm, dd = get_date(compute_jde2(y, m, d))
s.add(valid, z3.Or(yy != y, mm != m, dd != d))
t = time.time(); print(s.check(), time.time() - t)
if str(s.check()) == 'sat': print(s.model())
