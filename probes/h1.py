from pymeeus.Epoch import Epoch

def rt(y: int, m: int, d: int) -> bool:
    """
    pre: 1583 <= y <= 6000
    pre: 1 <= m <= 12
    pre: 1 <= d <= 28
    post: _
    """
    e = Epoch(y, m, d)
    yy, mm, dd = e.get_date()
    return yy == y and mm == m and dd == d

def jd(y: int, m: int, d: int) -> float:
    """
    pre: 1583 <= y <= 6000
    pre: 3 <= m <= 12
    pre: 1 <= d <= 28
    post: _ == 1721119.5 + 365*y + y//4 - y//100 + y//400 + (153*(m-3)+2)//5 + d - 1
    """
    e = Epoch(y, m, d)
    return e.jde()
