import z3, time, sys
# angles: alpha (ca, sa), delta (cd, sd) with cd>0, eps (ce, se)
ca, sa, cd, sd, ce, se = z3.Reals('ca sa cd sd ce se')
base = [ca*ca + sa*sa == 1, cd*cd + sd*sd == 1, cd > 0, ce*ce + se*se == 1]
# equatorial2ecliptical
Y = sa*ce + (sd/cd)*se
X = ca
r = z3.Real('r'); base += [r > 0, r*r == X*X + Y*Y]
slon, clon = Y/r, X/r
slat = sd*ce - cd*se*sa
clat = z3.Real('clat'); base += [clat >= 0, clat*clat == 1 - slat*slat]
# ecliptical2equatorial(lon, lat, eps)
Y2 = slon*ce - (slat/clat)*se
X2 = clon
r2 = z3.Real('r2'); base += [r2 > 0, r2*r2 == X2*X2 + Y2*Y2]
sra, cra = Y2/r2, X2/r2
sdec = slat*ce + clat*se*slon
for name, bad in [('sdec', sdec != sd), ('sra', sra != sa), ('cra', cra != ca)]:
    s = z3.Solver(); s.set('timeout', 120000)
    s.add(base + [clat > 0, bad])
    t = time.time(); res = s.check(); print(name, res, round(time.time()-t,1)); sys.stdout.flush()
    if str(res) == 'sat': print(s.model())
