import z3, time, sys
ca, sa, cd, sd, ce, se = z3.Reals('ca sa cd sd ce se')
base = [ca*ca + sa*sa == 1, cd*cd + sd*sd == 1, cd > 0, ce*ce + se*se == 1]
td = z3.Real('td'); base += [td*cd == sd]
Y = sa*ce + td*se; X = ca
r = z3.Real('r'); base += [r > 0, r*r == X*X + Y*Y]
slon, clon = z3.Reals('slon clon'); base += [slon*r == Y, clon*r == X]
slat = z3.Real('slat'); base += [slat == sd*ce - cd*se*sa]
clat = z3.Real('clat'); base += [clat > 0, clat*clat == 1 - slat*slat]
sdec = z3.Real('sdec'); base += [sdec == slat*ce + clat*se*slon]
tactics = sys.argv[1]
for name, bad in [('sdec', sdec != sd)]:
    s = z3.Tactic(tactics).solver() if tactics != 'default' else z3.Solver()
    s.set('timeout', 100000)
    s.add(base + [bad])
    t = time.time(); res = s.check(); print(tactics, name, res, round(time.time()-t,1)); sys.stdout.flush()
    if str(res) == 'sat': print(s.model())
