import z3, time, sys
def newton_diff(xs, ys, s, e):
    if s == e: return ys[s]
    return (newton_diff(xs, ys, s, e-1) - newton_diff(xs, ys, s+1, e)) / (xs[s] - xs[e])
def horner(xs, table, x):
    val = table[-1]
    for i in range(len(table)-1, 0, -1):
        val = table[i-1] + (x - xs[i-1]) * val
    return val
def pw(v, i):
    r = z3.RealVal(1)
    for _ in range(i): r = r * v
    return r
for n in (2, 3, 4, 5):
    xs = z3.Reals(' '.join(f'x{i}' for i in range(n)))
    order = [xs[i] + 1e-10 <= xs[i+1] for i in range(n-1)]
    cs = z3.Reals(' '.join(f'c{i}' for i in range(n))); x = z3.Real('x')
    poly = lambda v: sum(cs[i] * pw(v, i) for i in range(n))
    table2 = [newton_diff(xs, [poly(v) for v in xs], 0, i) for i in range(n)]
    s = z3.Solver(); s.set('timeout', 200000)
    s.add(order + [horner(xs, table2, x) != poly(x)])
    t = time.time(); r = s.check(); print('repro n', n, r, round(time.time()-t, 1)); sys.stdout.flush()
