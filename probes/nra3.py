import z3, time, sys
ca, sa, cd, sd, ce, se = z3.Reals('ca sa cd sd ce se')
base = [ca*ca + sa*sa == 1, cd*cd + sd*sd == 1, ce*ce + se*se == 1]
x = cd*ca; y = sa*cd*ce + sd*se; zc = sd*ce - cd*se*sa
s = z3.Solver(); s.set('timeout', 100000)
s.add(base + [x*x + y*y + zc*zc != 1])
t = time.time(); res = s.check(); print('norm', res, round(time.time()-t,1)); sys.stdout.flush()
# inverse rotation recovers z: zc*ce + y*se == sd
s = z3.Solver(); s.set('timeout', 100000)
s.add(base + [zc*ce + y*se != sd])
t = time.time(); res = s.check(); print('inv-z', res, round(time.time()-t,1)); sys.stdout.flush()
