import z3, time, sys
D = z3.Float64(); R = z3.RNE(); F = lambda v: z3.FPVal(v, D)
def trunc(x): return z3.fpRoundToIntegral(z3.RTZ(), x)
d = z3.FP('d', D)   # day with fraction from get_date, 1 <= d < 32
r = z3.fpSub(R, d, trunc(d))          # d % 1 for positive d (exact)
h = trunc(z3.fpMul(R, r, F(24.0)))
r2 = z3.fpSub(R, z3.fpMul(R, r, F(24.0)), h)   # r*24 - h   (python: r * 24 - h, 24 int -> same)
mi = trunc(z3.fpMul(R, r2, F(60.0)))
s = z3.fpMul(R, F(60.0), z3.fpSub(R, z3.fpMul(R, r2, F(60.0)), mi))
pre = z3.And(z3.fpGEQ(d, F(1.0)), z3.fpLT(d, F(32.0)))
for name, bad in [('h>=24', z3.fpGEQ(h, F(24.0))), ('mi>=60', z3.fpGEQ(mi, F(60.0))), ('s>=60', z3.fpGEQ(s, F(60.0))), ('s<0', z3.fpLT(s, F(0.0)))]:
    sol = z3.Solver(); sol.set('timeout', 300000)
    sol.add(pre, bad)
    t = time.time(); res = sol.check()
    print(name, res, round(time.time() - t, 1), sol.model() if str(res) == 'sat' else ''); sys.stdout.flush()
