"""POC2: shadow-execute real pymeeus source; numbers are scaled integers N/D (N z3 Int, D python int)."""
import sys, types, math, time, fractions
from math import gcd
import z3
Fr = fractions.Fraction
class Abort(Exception): pass
class Explorer:
    def __init__(self): self.nq = 0
    def feasible(self, c):
        self.nq += 1
        self.solver.push(); self.solver.add(c); r = self.solver.check() == z3.sat; self.solver.pop(); return r
    def decide(self, cond):
        cond = z3.simplify(cond)
        if z3.is_true(cond): return True
        if z3.is_false(cond): return False
        if self.pos < len(self.prefix): v = self.prefix[self.pos]
        else:
            t_ok = self.feasible(cond); f_ok = self.feasible(z3.Not(cond))
            if t_ok and f_ok: self.todo.append(self.prefix[:self.pos] + [False]); v = True
            elif t_ok: v = True
            elif f_ok: v = False
            else: raise Abort()
            self.prefix.append(v)
        self.pos += 1
        c = cond if v else z3.Not(cond); self.pc.append(c); self.solver.add(c); return v
    def run(self, fn, pre):
        results = []; self.todo = [[]]
        while self.todo:
            self.prefix = self.todo.pop(); self.pos = 0; self.pc = []
            self.solver = z3.Solver(); self.solver.add(pre)
            try: r = ('ok', fn())
            except Abort: continue
            except z3.Z3Exception: raise
            except Exception as e: r = ('exc', type(e).__name__ + ':' + str(e))
            results.append((list(self.pc), r))
        return results
EX = Explorer()
def lift(v):
    if isinstance(v, Sym): return v
    if isinstance(v, int): return Sym(z3.IntVal(v), 1, int)
    if isinstance(v, float):
        f = Fr(repr(v)); return Sym(z3.IntVal(f.numerator), f.denominator, float)
    raise TypeError(type(v))
class SBool:
    def __init__(self, e): self.e = e
    def __bool__(self): return EX.decide(self.e)
class Sym:
    def __init__(self, n, d, ty):
        self.n = n; self.d = d; self.ty = ty
    def const(self):
        s = z3.simplify(self.n)
        return Fr(s.as_long(), self.d) if z3.is_int_value(s) else None
    def __add__(s, o):
        o = lift(o); ty = float if float in (s.ty, o.ty) else int
        D = s.d * o.d // gcd(s.d, o.d); return Sym(s.n * (D // s.d) + o.n * (D // o.d), D, ty)
    def __radd__(s, o): return lift(o) + s
    def __neg__(s): return Sym(-s.n, s.d, s.ty)
    def __sub__(s, o): return s + (-lift(o))
    def __rsub__(s, o): return lift(o) - s
    def __mul__(s, o):
        o = lift(o); ty = float if float in (s.ty, o.ty) else int
        c = o.const(); a = s
        if c is None: c = s.const(); a = o
        if c is None: raise NotImplementedError('nonlinear')
        num, den = c.numerator, c.denominator; D = a.d * den; g = gcd(abs(num), D) if num else D
        return Sym(a.n * (num // g), D // g, ty)
    def __rmul__(s, o): return lift(o) * s
    def __truediv__(s, o):
        c = lift(o).const()
        if c is None: raise NotImplementedError('nonlinear div')
        r = s * lift(float(1)) if False else None
        inv = Fr(c.denominator, c.numerator)
        res = s * Sym(z3.IntVal(inv.numerator), inv.denominator, float); res.ty = float; return res
    def __rtruediv__(s, o): return lift(o) / s
    def floor(s): return Sym(s.n / s.d, 1, int) if s.d != 1 else Sym(s.n, 1, int)
    def trunc(s):
        if s.d == 1: return Sym(s.n, 1, int)
        return Sym(z3.If(s.n >= 0, s.n / s.d, -((-s.n) / s.d)), 1, int)
    def __mod__(s, o):
        c = lift(o).const()
        if s.ty is int and lift(o).ty is int: return Sym(s.n % lift(o).n, 1, int)
        # x mod c  with c>0 rational: x - c*floor(x/c)
        q = (s / o).floor(); return s - lift(o) * q
    def _cmp(s, o, f):
        o = lift(o); D = s.d * o.d // gcd(s.d, o.d); return SBool(f(s.n * (D // s.d), o.n * (D // o.d)))
    def __lt__(s, o): return s._cmp(o, lambda a, b: a < b)
    def __le__(s, o): return s._cmp(o, lambda a, b: a <= b)
    def __gt__(s, o): return s._cmp(o, lambda a, b: a > b)
    def __ge__(s, o): return s._cmp(o, lambda a, b: a >= b)
    def __eq__(s, o): return s._cmp(o, lambda a, b: a == b)
    def __ne__(s, o): return s._cmp(o, lambda a, b: a != b)
    __hash__ = None
    def __abs__(s): return Sym(z3.If(s.n >= 0, s.n, -s.n), s.d, s.ty)
    def __index__(s):
        c = s.const()
        if c is not None and c.denominator == 1: return int(c)
        # concretize small-range index by forking
        for k in range(0, 64):
            if SBool(s.n == k * s.d): return k
        raise Abort()
class _M(type):
    def __instancecheck__(cls, obj):
        if isinstance(obj, Sym): return obj.ty is cls._real
        return isinstance(obj, cls._real)
class s_int(int, metaclass=_M):
    _real = int
    def __new__(cls, x=0, *a): return x.trunc() if isinstance(x, Sym) else int(x, *a)
class s_float(float, metaclass=_M):
    _real = float
    def __new__(cls, x=0.0):
        if isinstance(x, Sym): return Sym(x.n, x.d, float)
        return float(x)
def _unmap(k): return getattr(k, '_real', k) if isinstance(k, type) and issubclass(k, (s_int, s_float)) else k
def s_isinstance(x, t):
    ts = tuple(_unmap(k) for k in (t if isinstance(t, tuple) else (t,)))
    if isinstance(x, Sym): return any(x.ty is k or (k is object) for k in ts)
    return isinstance(x, ts)
def s_floor(x): return x.floor() if isinstance(x, Sym) else math.floor(x)
def load(name, path):
    src = open(path).read(); mod = types.ModuleType(name); mod.__file__ = path
    mod.__dict__.update({'isinstance': s_isinstance, 'int': s_int, 'float': s_float}); sys.modules[name] = mod
    exec(compile(src, path, 'exec'), mod.__dict__)
    for k, v in {'floor': s_floor}.items():
        if k in mod.__dict__: mod.__dict__[k] = v
    return mod
pk = types.ModuleType('pymeeus'); pk.__path__ = []; sys.modules['pymeeus'] = pk
base = load('pymeeus.base', '/repo/pymeeus/base.py'); angle = load('pymeeus.Angle', '/repo/pymeeus/Angle.py')
epoch = load('pymeeus.Epoch', '/repo/pymeeus/Epoch.py'); Epoch = epoch.Epoch
y = Sym(z3.Int('y'), 1, int); d = Sym(z3.Int('d'), 1, int)
pre = z3.And(y.n >= -4712, y.n <= 6000, d.n >= 0, d.n <= 33)
t0 = time.time(); total = 0; viol = 0; kinds = {}
for m in range(1, 13):
    def fn():
        e = Epoch(y, m, d); return e.jde(), e.get_date()
    res = EX.run(fn, pre); total += len(res)
    for pc, (kind, val) in res:
        kinds[kind if kind == 'ok' else val] = kinds.get(kind if kind == 'ok' else val, 0) + 1
        if kind == 'ok':
            jde, (yy, mm, dd) = val
            s = z3.Solver(); s.add(pre, *pc); dd = lift(dd)
            s.add(z3.Or(lift(yy).n != y.n, lift(mm).n != m, dd.n != d.n * dd.d))
            if s.check() != z3.unsat: viol += 1; print('VIOL', m, s.model())
print('paths', total, 'violations', viol, 'queries', EX.nq, 'time', round(time.time() - t0, 1)); print(kinds)
