from typing import Union, Optional, List, Tuple
from pymeeus.Epoch import Epoch
from pymeeus.Angle import Angle

def t_get_month(m: Union[int, float, str, None, complex]) -> object:
    """
    raises: TypeError, ValueError
    post: _ is not None
    """
    return Epoch.get_month(m)

def t_angle_ctor(a: Union[int, float, str, None, complex], b: Union[int, float, str, None]) -> float:
    """
    raises: TypeError, ValueError
    post: -360.0 < _ < 360.0
    """
    return Angle(a, b)()

def t_leap(y: int, m: int) -> int:
    """
    pre: 1950 <= y <= 2100 and 1 <= m <= 12
    post: 0 <= _ <= 27
    """
    return Epoch.leap_seconds(y, m)

def t_leap_mono(y: int, m: int) -> bool:
    """
    pre: 1950 <= y <= 2100 and 1 <= m <= 11
    post: _
    """
    return Epoch.leap_seconds(y, m) <= Epoch.leap_seconds(y, m + 1)
