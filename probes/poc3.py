"""POC3: mode T — run the real Coordinates.equatorial2ecliptical / ecliptical2equatorial on trig atoms."""
import sys, types, math, time, fractions
import z3
Fr = fractions.Fraction
class Abort(Exception): pass
class Explorer:
    def __init__(self): self.nq = 0; self.axioms = []
    def feasible(self, c):
        self.nq += 1; self.solver.push(); self.solver.add(c); r = self.solver.check(); self.solver.pop(); return r == z3.sat
    def decide(self, cond):
        cond = z3.simplify(cond)
        if z3.is_true(cond): return True
        if z3.is_false(cond): return False
        if self.pos < len(self.prefix): v = self.prefix[self.pos]
        else:
            t_ok = self.feasible(cond); f_ok = self.feasible(z3.Not(cond))
            if t_ok and f_ok: self.todo.append(self.prefix[:self.pos] + [False]); v = True
            elif t_ok: v = True
            elif f_ok: v = False
            else: raise Abort()
            self.prefix.append(v)
        self.pos += 1
        c = cond if v else z3.Not(cond); self.pc.append(c); self.solver.add(c); return v
    def assume(self, c): self.axioms.append(c); self.solver.add(c)
    def run(self, fn, pre):
        results = []; self.todo = [[]]
        while self.todo:
            self.prefix = self.todo.pop(); self.pos = 0; self.pc = []; self.axioms = []
            self.solver = z3.Solver(); self.solver.add(pre)
            try: r = ('ok', fn())
            except Abort: continue
            results.append((list(self.pc), list(self.axioms), r))
        return results
EX = Explorer()
PI = z3.Real('PI'); PI_AX = z3.And(PI > z3.RealVal('3.14159265358979'), PI < z3.RealVal('3.14159265358980'))
ATOMS = {}   # id -> dict(c=, s=)  (cos, sin) as z3 reals (possibly defined up to positive scale 'r')
class SBool:
    def __init__(s, e): s.e = e
    def __bool__(s): return EX.decide(s.e)
def R(v):
    if isinstance(v, T): return v
    if isinstance(v, (int, float)): return T(z3.RealVal(str(Fr(repr(float(v))) if isinstance(v, float) else v)))
    raise TypeError(type(v))
class T:
    """real-valued symbolic; optional angle provenance: lin {atom:int}, unit in {'deg','rad'}"""
    def __init__(s, e, lin=None, unit=None): s.e = e; s.lin = lin; s.unit = unit
    def _k(s): return 180 if s.unit == 'deg' else PI     # half turn in own unit
    def __add__(s, o):
        o = R(o); lin = None; unit = None
        if s.lin is not None and o.lin is not None and s.unit == o.unit:
            lin = dict(s.lin); unit = s.unit
            for a, n in o.lin.items(): lin[a] = lin.get(a, 0) + n
        elif s.lin is not None and o.lin is None and s.unit == 'deg' and z3.is_rational_value(z3.simplify(o.e)):
            c = z3.simplify(o.e); q = Fr(c.numerator_as_long(), c.denominator_as_long())
            if q % 360 == 0: lin = dict(s.lin); unit = s.unit
        elif o.lin is not None and s.lin is None: return o + s
        return T(s.e + o.e, lin, unit)
    __radd__ = __add__
    def __neg__(s): return T(-s.e, None if s.lin is None else {a: -n for a, n in s.lin.items()}, s.unit)
    def __sub__(s, o): return s + (-R(o))
    def __rsub__(s, o): return R(o) - s
    def __mul__(s, o): o = R(o); return T(s.e * o.e)
    __rmul__ = __mul__
    def __truediv__(s, o): o = R(o); return T(s.e / o.e)
    def __rtruediv__(s, o): return R(o) / s
    def _cmp(s, o, f): return SBool(f(s.e, R(o).e))
    def __lt__(s, o): return s._cmp(o, lambda a, b: a < b)
    def __le__(s, o): return s._cmp(o, lambda a, b: a <= b)
    def __gt__(s, o): return s._cmp(o, lambda a, b: a > b)
    def __ge__(s, o): return s._cmp(o, lambda a, b: a >= b)
    __hash__ = None
    def __abs__(s):
        return s if (s >= 0) else -s          # forks (or is implied); keeps provenance
def trig(x):
    """(cos, sin) numerators and positive scale for angle-provenanced x (single atom, coeff ±1 only in POC)"""
    assert x.lin is not None, 'sin/cos of a non-angle'
    items = [(a, n) for a, n in x.lin.items() if n]
    assert len(items) == 1 and abs(items[0][1]) == 1, items
    a, n = items[0]; at = ATOMS[a]
    return at['c'], (at['s'] if n > 0 else -at['s'])
def s_sin(x): x = R(x); c, s = trig(x); return T(s)
def s_cos(x): x = R(x); c, s = trig(x); return T(c)
def s_tan(x): x = R(x); c, s = trig(x); return T(s / c)
def s_radians(x):
    x = R(x); return T(x.e * PI / 180, x.lin, 'rad' if x.lin is not None else None)
def s_degrees(x):
    x = R(x); return T(x.e * 180 / PI, x.lin, 'deg' if x.lin is not None else None)
CNT = [0]
def new_atom(c, s, val_constraints, unit='rad'):
    CNT[0] += 1; a = f'a{CNT[0]}'; v = z3.Real('v_' + a)
    ATOMS[a] = dict(c=c, s=s, v=v)
    for k in val_constraints(v): EX.assume(k)
    return T(v, {a: 1}, unit)
def s_atan2(y, x):
    y, x = R(y), R(x)
    # direction (x, y) up to positive scale: cos ∝ x, sin ∝ y
    r = z3.Real(f'r{CNT[0]+1}')
    t = new_atom(x.e / r, y.e / r, lambda v: [v > -PI, v <= PI, r > 0, r * r == x.e * x.e + y.e * y.e,
                                              z3.Implies(y.e > 0, v > 0), z3.Implies(y.e < 0, v < 0)])
    ATOMS[list(t.lin)[0]].update(X=x.e, Y=y.e)
    return t
def s_asin(z):
    z = R(z); w = z3.Real(f'w{CNT[0]+1}')
    t = new_atom(w, z.e, lambda v: [v >= -PI/2, v <= PI/2, w >= 0, w * w == 1 - z.e * z.e])
    ATOMS[list(t.lin)[0]].update(Z=z.e)
    return t
class _M(type):
    def __instancecheck__(cls, obj): return isinstance(obj, T) if cls._real is float else isinstance(obj, int)
class s_float(float, metaclass=_M):
    _real = float
    def __new__(cls, x=0.0): return x if isinstance(x, T) else float(x)
def s_isinstance(x, t):
    ts = tuple((float if k is s_float else k) for k in (t if isinstance(t, tuple) else (t,)))
    if isinstance(x, T): return float in ts
    return isinstance(x, ts)
def load(name, path, patch_math=()):
    src = open(path).read(); mod = types.ModuleType(name); mod.__file__ = path
    mod.__dict__.update({'isinstance': s_isinstance, 'float': s_float}); sys.modules[name] = mod
    exec(compile(src, path, 'exec'), mod.__dict__)
    for k, v in {'sin': s_sin, 'cos': s_cos, 'tan': s_tan, 'atan2': s_atan2, 'asin': s_asin, 'radians': s_radians, 'degrees': s_degrees}.items():
        if k in mod.__dict__: mod.__dict__[k] = v
    return mod
# load real modules (Epoch/base natively; Angle, Coordinates instrumented)
sys.path.insert(0, '/repo')
import pymeeus.base, pymeeus.Epoch, pymeeus.Interpolation   # concrete modules are fine for this POC
angle = load('pymeeus.Angle', '/repo/pymeeus/Angle.py')
# Interpolation/Epoch imported Angle natively earlier; Coordinates will import our instrumented Angle from sys.modules
coords = load('pymeeus.Coordinates', '/repo/pymeeus/Coordinates.py')
Angle = angle.Angle
def input_angle(name, lo, hi):
    v = z3.Real('v_' + name); c, s = z3.Reals(f'c_{name} s_{name}')
    ATOMS[name] = dict(c=c, s=s, v=v)
    pre = [c * c + s * s == 1, v > lo, v < hi]
    return T(v, {name: 1}, 'deg'), pre, (c, s)
def run(fname, spec):
    ATOMS.clear(); CNT[0] = 0
    a1, p1, (ca, sa) = input_angle('al', -360, 360); a2, p2, (cd, sd) = input_angle('de', -90, 90); a3, p3, (ce, se) = input_angle('ep', -90, 90)
    pre = z3.And(PI_AX, *p1, *p2, *p3, cd > 0)
    def fn():
        A1, A2, A3 = Angle(a1), Angle(a2), Angle(a3)
        lon, lat = getattr(coords, fname)(A1, A2, A3)
        return lon, lat
    t0 = time.time(); res = EX.run(fn, pre); out = []
    for pc, ax, (kind, (lon, lat)) in res:
        lo_atom = [a for a, n in lon._deg.lin.items() if n][0]; la_atom = [a for a, n in lat._deg.lin.items() if n][0]
        X, Y = ATOMS[lo_atom]['X'], ATOMS[lo_atom]['Y']; Z = ATOMS[la_atom]['Z']
        xt, yt, zt = spec(ca, sa, cd, sd, ce, se)
        for nm, bad in [('cross', X * yt - Y * xt != 0), ('dot', z3.And(z3.Or(xt != 0, yt != 0), X * xt + Y * yt <= 0)), ('z', Z != zt),
                        ('lon>=0', lon._deg.e < 0), ('lon<360', lon._deg.e >= 360), ('|lat|<=90', z3.Or(lat._deg.e > 90, lat._deg.e < -90))]:
            s = z3.Solver(); s.set('timeout', 60000); s.add(pre, *pc, *ax, bad); out.append((nm, str(s.check())))
    print(fname, 'paths', len(res), 'queries', EX.nq, out, round(time.time() - t0, 1))
# spec: ecliptic coords of unit vector = Rx(eps) applied: x' = x ; y' = y cos e + z sin e ; z' = -y sin e + z cos e
run('equatorial2ecliptical', lambda ca, sa, cd, sd, ce, se: (cd * ca, cd * sa * ce + sd * se, -cd * sa * se + sd * ce))
run('ecliptical2equatorial', lambda ca, sa, cd, sd, ce, se: (cd * ca, cd * sa * ce - sd * se, cd * sa * se + sd * ce))
# canary: wrong sign spec must be refuted (sat)
run('equatorial2ecliptical', lambda ca, sa, cd, sd, ce, se: (cd * ca, cd * sa * ce - sd * se, -cd * sa * se + sd * ce))
