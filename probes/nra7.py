import z3, time, sys
def chk(name, cons, to=120000):
    s = z3.Solver(); s.set('timeout', to); s.add(*cons); t = time.time(); r = s.check()
    print(name, r, round(time.time()-t, 1), s.model() if str(r) == 'sat' else ''); sys.stdout.flush()
# correlation r^2 <= 1 for n=2,3,4 points
for n in (2, 3, 4):
    xs = z3.Reals(' '.join(f'x{i}' for i in range(n))); ys = z3.Reals(' '.join(f'y{i}' for i in range(n)))
    sx = sum(xs); sy = sum(ys); sxy = sum(a*b for a, b in zip(xs, ys)); sx2 = sum(a*a for a in xs); sy2 = sum(b*b for b in ys)
    num = n*sxy - sx*sy; dx = n*sx2 - sx*sx; dy = n*sy2 - sy*sy
    chk(f'corr n={n}', [num*num > dx*dy])
    chk(f'dx>=0 n={n}', [dx < 0])
# circle diameter: a>=b, a>=c, triangle, acute-ish: a*a < b*b + c*c ; d = 2abc/sqrt(P)
a, b, c, w = z3.Reals('a b c w')
P = (a+b+c)*(a+b-c)*(b+c-a)*(a+c-b)
base = [a > 0, b > 0, c > 0, a >= b, a >= c, a < b + c, a*a < b*b + c*c, w > 0, w*w == P]
chk('circ d>=a', base + [2*a*b*c < a*w])
chk('circ d<=2a/sqrt3', base + [3*(2*b*c)*(2*b*c) > 4*w*w])
# length_orbit bounds: e<0.95 formula: pi*(21*aa - 2*gg - 3*hh)/8 between 2*pi*b and 2*pi*a, b<=a
A, Bm, g = z3.Reals('A B g')
base = [A > 0, Bm > 0, Bm <= A, g > 0, g*g == A*Bm]
aa = (A + Bm)/2; hh = 2*A*Bm/(A + Bm); L = (21*aa - 2*g - 3*hh)/8
chk('len1 >= 2b', base + [L < 2*Bm]); chk('len1 <= 2a', base + [L > 2*A])
v = z3.Real('v'); base2 = [A > 0, Bm > 0, Bm <= A, v > 0, v*v == (A + 3*Bm)*(3*A + Bm)]
L2 = 3*(A + Bm) - v
chk('len2 >= 2b', base2 + [L2 < 2*Bm]); chk('len2 <= 2a', base2 + [L2 > 2*A])
