import z3, time, sys
D = z3.Float64(); R = z3.RNE(); F = lambda v: z3.FPVal(v, D)
def trunc(x): return z3.fpRoundToIntegral(z3.RTZ(), x)
x = z3.FP('x', D)
ax = z3.fpAbs(x)
big = z3.fpGEQ(ax, F(360.0))
sign = z3.If(z3.fpGEQ(x, F(0.0)), F(1.0), F(-1.0))
frac = z3.fpSub(R, ax, trunc(ax))
n = z3.fpToSBV(z3.RTZ(), ax, z3.BitVecSort(64))
nm = z3.SRem(n, z3.BitVecVal(360, 64))
red = z3.fpMul(R, sign, z3.fpAdd(R, z3.fpSignedToFP(R, nm, D), frac))
r = z3.If(big, red, x)
pre = z3.And(z3.Not(z3.fpIsNaN(x)), z3.fpLEQ(ax, F(1e15)))
# spec
ar = z3.fpAbs(r)
nr = z3.fpToSBV(z3.RTZ(), ar, z3.BitVecSort(64))
fr = z3.fpSub(R, ar, trunc(ar))
checks = [('range', z3.Not(z3.fpLT(ar, F(360.0)))),
          ('frac', z3.Not(z3.fpEQ(fr, frac))),
          ('cong', z3.SRem(n - nr, z3.BitVecVal(360, 64)) != 0),
          ('sign', z3.And(z3.Not(z3.fpIsZero(r)), z3.fpIsNegative(r) != z3.fpIsNegative(x)))]
for name, bad in checks:
    s = z3.Solver(); s.set('timeout', 300000); s.add(pre, bad)
    t = time.time(); res = s.check(); print(name, res, round(time.time()-t, 1), s.model() if str(res)=='sat' else ''); sys.stdout.flush()
# to_positive: deg<0 -> 360.0 - abs(deg)
d = z3.FP('d', D)
pre2 = z3.And(z3.fpLT(d, F(0.0)), z3.fpGT(d, F(-360.0)))
tp = z3.fpSub(R, F(360.0), z3.fpAbs(d))
s = z3.Solver(); s.add(pre2, z3.Not(z3.fpLT(tp, F(360.0))))
t = time.time(); res = s.check(); print('to_positive<360', res, round(time.time()-t,1), s.model() if str(res)=='sat' else '')
