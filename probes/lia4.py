import z3, time, sys
from fractions import Fraction as Fr
r0, r1 = int(sys.argv[1]), int(sys.argv[2])
k = z3.Int('k')
def fdiv(n, d): return n / d
# Meeus pesach with decimal constants scaled by 1e12
S = 10**12
def meeus(year):
    c = fdiv(year, 100)
    s = z3.If(year < 1583, 0, fdiv(3*c - 5, 4))
    a = (12*(year + 1)) % 19; b = year % 4
    qN = -1904412361576 + 1554241796621*a + 250000000000*b - 3177794022*year + S*s   # q*1e12
    iq = fdiv(qN, S); rN = qN - S*iq
    j = (iq + 3*year + 5*b + 2 - s) % 7
    d = z3.If(z3.Or(j == 2, j == 4, j == 6), iq + 23,
         z3.If(z3.And(j == 1, a > 6, rN > 632870370000), iq + 24,
          z3.If(z3.And(j == 0, a > 11, rN > 897723765000), iq + 23, iq + 22)))
    return d    # day of March (may exceed 31)
def jdn_march(year, d):
    # JDN (noon-based integer) of March d of civil year (Julian <=1582 else Gregorian); March-based so no month shift
    jul = 367*0 + fdiv(1461*(year + 4716), 4) + 122 + d - 1524   # minus .5 dropped; consistent both sides
    a_ = fdiv(year, 100); b_ = z3.If(year < 1583, 0, 2 - a_ + fdiv(a_, 4))
    return jul + b_
def elapsed(hy):
    months = fdiv(235*hy - 234, 19); parts = 12084 + 13753*months
    day = 29*months + fdiv(parts, 25920)
    return z3.If((3*(day + 1)) % 7 < 3, day + 1, day)
def new_year(hy):
    n0, n1, n2 = elapsed(hy - 1), elapsed(hy), elapsed(hy + 1)
    corr = z3.If(n2 - n1 == 356, 2, z3.If(n1 - n0 == 382, 1, 0))
    return -1373427 + n1 + corr      # RD

tot = time.time()
for r in range(r0, r1):
    y = 76*k + r
    ref_rd = new_year(y + 3761) - 163
    s = z3.Solver(); s.set('timeout', 300000)
    s.add(y >= 1, y <= 3000, jdn_march(y, meeus(y)) != ref_rd + 1721425)
    t = time.time(); res = s.check(); print(r, res, round(time.time() - t, 1), s.model() if str(res) == 'sat' else ''); sys.stdout.flush()
print('total', round(time.time()-tot,1))
