import z3, time, sys
y = z3.Int('y')
def meeus_greg(year):
    a = year % 19; b = year / 100; c = year % 100; d = b / 4; e = b % 4
    f = (b + 8) / 25; g = (b - f + 1) / 3; h = (19*a + b - d - g + 15) % 30
    i = c / 4; k = c % 4; ll = (32 + 2*(e + i) - h - k) % 7
    m = (a + 11*h + 22*ll) / 451
    n = (h + ll - 7*m + 114) / 31; p = (h + ll - 7*m + 114) % 31
    return n, p + 1
def knuth_greg(Y):
    G = Y % 19 + 1; C = Y / 100 + 1; X = 3*C/4 - 12; Z = (8*C + 5)/25 - 5
    Dd = 5*Y/4 - X - 10; E = (11*G + 20 + Z - X) % 30
    E = z3.If(z3.Or(z3.And(E == 25, G > 11), E == 24), E + 1, E)
    N = 44 - E; N = z3.If(N < 21, N + 30, N)
    N = N + 7 - (Dd + N) % 7
    return z3.If(N > 31, 4, 3), z3.If(N > 31, N - 31, N)
lo, hi = int(sys.argv[1]), int(sys.argv[2])
s = z3.Solver(); s.set('timeout', 600000)
n, p = meeus_greg(y); kn, kp = knuth_greg(y)
s.add(y >= lo, y <= hi, z3.Or(n != kn, p != kp))
t = time.time(); r = s.check(); print(lo, hi, r, round(time.time()-t,1), s.model() if str(r)=='sat' else '')
