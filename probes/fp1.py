import z3, time, sys
# lemma: for integer y in [-4713, 6000]: floor(fl(y/100.0)) == y div 100 (floor div)
def lemma_div(lo, hi, c, bits=32):
    y = z3.BitVec('y', bits)
    s = z3.SolverFor('QF_FPBV') if False else z3.Solver()
    D = z3.Float64()
    fy = z3.fpSignedToFP(z3.RNE(), y, D)
    q = z3.fpDiv(z3.RNE(), fy, z3.FPVal(c, D))
    fl = z3.fpRoundToIntegral(z3.RTN(), q)
    r = z3.fpToSBV(z3.RTN(), fl, z3.BitVecSort(bits))
    # integer floor div by int c
    ci = int(c)
    qq = z3.If(z3.And(z3.SRem(y, ci) != 0, y < 0), y / ci - 1, y / ci)  # bv sdiv truncates
    s.add(y >= lo, y <= hi, r != qq)
    t = time.time(); res = s.check(); return res, time.time() - t
print(lemma_div(-4713, 6000, 100.0))
print(lemma_div(0, 5500000, 100.0))
