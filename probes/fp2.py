import z3, time, sys
D = z3.Float64()
def fdiv(a, c, bits):
    # floor division of signed bv a by positive int c
    return z3.If(z3.And(z3.SRem(a, c) != 0, a < 0), a / c - 1, a / c)
def run(name, build, lo, hi, bits=40, timeout=600):
    b = z3.BitVec('b', bits)
    s = z3.Solver(); s.set('timeout', timeout*1000)
    fb = z3.fpSignedToFP(z3.RNE(), b, D)
    lhs, rhs = build(b, fb, bits)
    r = z3.fpToSBV(z3.RTN(), z3.fpRoundToIntegral(z3.RTN(), lhs), z3.BitVecSort(bits))
    s.add(b >= lo, b <= hi, r != rhs)
    t = time.time(); res = s.check(); 
    print(name, res, round(time.time() - t,1), s.model() if str(res)=='sat' else '')
    sys.stdout.flush()
R = z3.RNE()
F = lambda v: z3.FPVal(v, D)
# c = iint((b - 122.1) / 365.25)
run('c=(b-122.1)/365.25', lambda b, fb, n: (z3.fpDiv(R, z3.fpSub(R, fb, F(122.1)), F(365.25)), fdiv(20*b - 2442, 7305, n)), 1524, 5500000)
# alpha = iint((z - 1867216.25) / 36524.25)
run('alpha', lambda b, fb, n: (z3.fpDiv(R, z3.fpSub(R, fb, F(1867216.25)), F(36524.25)), fdiv(4*b - 7468865, 146097, n)), 2299161, 5500000)
# d = iint(365.25 * c)   c in [0, 15000]
run('365.25*c', lambda b, fb, n: (z3.fpMul(R, F(365.25), fb), fdiv(1461*b, 4, n)), -10, 20000)
# e = iint((b - d) / 30.6001)  x=b-d in [0, 500]
run('x/30.6001', lambda b, fb, n: (z3.fpDiv(R, fb, F(30.6001)), fdiv(10000*b, 306001, n)), 0, 1000)
# iint(30.6001 * e), e in 0..16
run('30.6001*e', lambda b, fb, n: (z3.fpMul(R, F(30.6001), fb), fdiv(306001*b, 10000, n)), 0, 20)
