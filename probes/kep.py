import z3, time
# one bisection step from arbitrary state: invariant |E* - e0| <= 2d, d>0 ; g monotone/Lipschitz: (1-e)(b-a) <= g(b)-g(a) <= (1+e)(b-a) for a<=b
e0, d, Es, ecc, m, g0, gs = z3.Reals('e0 d Es ecc m g0 gs')   # g0 = g(e0), gs = g(E*) = m
def lip(a, ga, b, gb):  # instance for pair (a,b)
    return z3.And(z3.Implies(a <= b, z3.And((1-ecc)*(b-a) <= gb-ga, gb-ga <= (1+ecc)*(b-a))),
                  z3.Implies(b <= a, z3.And((1-ecc)*(a-b) <= ga-gb, ga-gb <= (1+ecc)*(a-b))))
pre = [ecc >= 0, ecc < 1, d > 0, gs == m, lip(e0, g0, Es, gs), Es - e0 <= 2*d, e0 - Es <= 2*d]
# code: m1 = g0 ; s = copysign(1, m - m1) ; e0' = e0 + d*s ; d' = d/2   (s=+1 if m-m1 >= 0 (or +0.0), else -1)
sgn = z3.If(m - g0 >= 0, 1, -1)
e1 = e0 + d*sgn; d1 = d/2
s = z3.Solver(); s.add(pre); s.add(z3.Or(Es - e1 > 2*d1, e1 - Es > 2*d1))
t = time.time(); print('inductive step', s.check(), round(time.time()-t, 2))
# exit bound: |g(e0) - m| <= (1+e)*2d
s = z3.Solver(); s.add(pre); s.add(z3.Or(g0 - m > (1+ecc)*2*d, m - g0 > (1+ecc)*2*d)); print('residual', s.check())
# also -0.0 / equality case: copysign(1.0, -0.0) = -1 : when m - m1 == 0 either sign keeps invariant
sgn2 = z3.If(m - g0 > 0, 1, -1); e2 = e0 + d*sgn2
s = z3.Solver(); s.add(pre); s.add(z3.Or(Es - e2 > 2*d1, e2 - Es > 2*d1)); print('inductive (eq -> -1)', s.check())
