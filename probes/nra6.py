import z3, time, sys
ca, sa, cd, sd, ce, se = z3.Reals('ca sa cd sd ce se')
base = [ca*ca + sa*sa == 1, cd*cd + sd*sd == 1, cd > 0, ce*ce + se*se == 1]
X = ca; Y = sa*ce + (sd/cd)*se
xt = cd*ca; yt = cd*sa*ce + sd*se
for name, bad in [('cross', X*yt - Y*xt != 0), ('dot', z3.And(z3.Or(xt != 0, yt != 0), X*xt + Y*yt <= 0)),
                  ('z', sd*ce - cd*se*sa != -(cd*sa)*se + sd*ce)]:
    s = z3.Solver(); s.set('timeout', 120000); s.add(base + [bad])
    t = time.time(); r = s.check(); print(name, r, round(time.time()-t,1)); sys.stdout.flush()
# precession rigid-rotation: output vector (b, a, c) rotated by z: norm preserved and equals Rz(-z)... check a^2+b^2+c^2 == 1
cz, sz, ct, st, cr, sr = z3.Reals('cz sz ct st cr sr')  # zeta, theta ; ra+zeta as angle sum
base2 = [ca*ca + sa*sa == 1, cd*cd + sd*sd == 1, cz*cz + sz*sz == 1, ct*ct + st*st == 1]
s_rz = sa*cz + ca*sz; c_rz = ca*cz - sa*sz
a = cd*s_rz; b = ct*cd*c_rz - st*sd; c = st*cd*c_rz + ct*sd
s = z3.Solver(); s.add(base2 + [a*a + b*b + c*c != 1]); t=time.time(); print('prec norm', s.check(), round(time.time()-t,1))
# two-star angle preservation: dot product preserved
ca2, sa2, cd2, sd2 = z3.Reals('ca2 sa2 cd2 sd2')
base3 = base2 + [ca2*ca2 + sa2*sa2 == 1, cd2*cd2 + sd2*sd2 == 1]
s_rz2 = sa2*cz + ca2*sz; c_rz2 = ca2*cz - sa2*sz
a2 = cd2*s_rz2; b2 = ct*cd2*c_rz2 - st*sd2; c2 = st*cd2*c_rz2 + ct*sd2
dot0 = cd*ca*cd2*ca2 + cd*sa*cd2*sa2 + sd*sd2
s = z3.Solver(); s.set('timeout', 120000); s.add(base3 + [a*a2 + b*b2 + c*c2 != dot0]); t=time.time(); print('prec dot', s.check(), round(time.time()-t,1))
